#!/venv/bin/python
"""Generates selftest/mutants/*.patch from exact-string edits of the current /repo sources.
Each patch starts with a comment line naming the properties it is expected to break."""
import os, shutil, subprocess, sys, tempfile

M = [
 ("allows_lower_flipped_inclusivity", "C01,C05,C14", "src/dep_logic/specifiers/range.py",
  "            and self.include_min\n            and not other.include_min\n", "            and not self.include_min\n            and other.include_min\n"),
 ("allows_higher_uses_include_min", "C01,C05,C14", "src/dep_logic/specifiers/range.py",
  "            or self.max == other.max\n            and self.include_max\n            and not other.include_max\n", "            or self.max == other.max\n            and self.include_min\n            and not other.include_max\n"),
 ("is_strictly_lower_le", "C01,C05", "src/dep_logic/specifiers/range.py",
  "            self.max < other.min\n            or self.max == other.min\n            and False in (self.include_max, other.include_min)\n", "            self.max <= other.min\n"),
 ("or_drops_adjacency", "C05,C14", "src/dep_logic/specifiers/range.py",
  "            if self.is_strictly_lower(other) and not self.is_adjacent_to(other):\n                return UnionSpecifier((self, other))", "            if self.is_strictly_lower(other):\n                return UnionSpecifier((self, other))"),
 ("union_or_break_early", "C01,C05,C14", "src/dep_logic/specifiers/union.py",
  "                    new_ranges.extend([other, range, *ranges])\n                    break", "                    new_ranges.extend([other, range])\n                    break"),
 ("generic_eq_in_swapped", "C19,C02", "src/dep_logic/specifiers/generic.py",
  "            if this.value in that.value:\n                return this\n            return EmptySpecifier()", "            if this.value in that.value:\n                return EmptySpecifier()\n            return this"),
 ("normalize_gt_without_plus_one", "C02,C03", "src/dep_logic/markers/single.py",
  "        # python_version > '3.7' is equal to python_full_version >= '3.8.0'\n        splitted[-1] = str(int(splitted[-1]) + 1)\n        op = \">=\"", "        # python_version > '3.7' is equal to python_full_version >= '3.8.0'\n        op = \">=\""),
 ("abi3_gate_strict", "C08", "src/dep_logic/tags/tags.py",
  "parse_version_specifier(f\">={major}.{minor or 0}\")", "parse_version_specifier(f\">{major}.{minor or 0}\")"),
 ("manylinux2010_wrong_minor", "C09", "src/dep_logic/tags/platform.py",
  "                    if minor == 12:\n", "                    if minor == 13:\n"),
 ("musllinux_from_zero", "C09", "src/dep_logic/tags/platform.py",
  "            for minor in range(1, os_.minor + 1):", "            for minor in range(0, os_.minor + 1):"),
 ("reversed_not_compared", "C02,C10,C13", "src/dep_logic/markers/single.py",
  "    reversed: bool = False\n", "    reversed: bool = field(default=False, compare=False, hash=False)\n"),
 ("multimarker_str_no_parens", "C07", "src/dep_logic/markers/multi.py",
  "            if isinstance(m, (MarkerExpression, MultiMarker)):\n                elements.append(str(m))\n            else:\n                elements.append(f\"({m})\")", "            elements.append(str(m))"),
 ("only_keeps_foreign_atoms", "C12", "src/dep_logic/markers/single.py",
  "        if self.name not in marker_names:\n            return AnyMarker()\n\n        return self", "        return self"),
 ("from_ranges_one_element_union", "C05", "src/dep_logic/specifiers/union.py",
  "        elif ranges_number == 1:\n            return ranges[0]\n", "        elif ranges_number == 1 and ranges[0].min is None:\n            return ranges[0]\n"),
 ("any_eq_class_only", "C05,C14", "src/dep_logic/specifiers/special.py",
  "        return other.is_any()", "        return isinstance(other, AnySpecifier)"),
 ("wheel_dash_count", "C18", "src/dep_logic/tags/tags.py",
  "    if dashes not in (4, 5):", "    if dashes not in (4, 5, 6):"),
 ("specifier_cache_hashed", "C13", "src/dep_logic/markers/single.py",
  "    _specifier: BaseSpecifier | None = field(default=None, compare=False, hash=False)", "    _specifier: BaseSpecifier | None = field(default=None, compare=False, hash=True)"),
 ("ne_wildcard_epoch_only", "C06", "src/dep_logic/specifiers/union.py",
  "                first_different > 0\n", "                first_different >= 0\n"),
 ("marker_union_dup_break", "C02,C15", "src/dep_logic/markers/union.py",
  "                if marker in new_markers:\n                    continue\n\n                if marker.is_empty():", "                if marker in new_markers:\n                    break\n\n                if marker.is_empty():"),
 ("from_specifier_pads_compat", "C02,C03,C11", "src/dep_logic/markers/single.py",
  "                and pkg_spec.operator != \"~=\"\n", ""),
 ("pyXY_exact_minor", "C08", "src/dep_logic/tags/tags.py",
  "            if major and minor and impl == \"py\":", "            if major and minor and impl == \"pyx\":"),
 ("compat_release_bound_off", "C04", "src/dep_logic/specifiers/__init__.py",
  "        max = _next_release(min, len(min.release) - 1)", "        max = _next_release(min, len(min.release) - 1 if len(min.release) > 2 else 2)"),
 ("mac_arm64_universal2_floor", "C09,C16", "src/dep_logic/tags/platform.py",
  "            for minor in range(16, 3, -1):\n                platform_tags.append(f\"macosx_10_{minor}_universal2\")", "            for minor in range(16, 8, -1):\n                platform_tags.append(f\"macosx_10_{minor}_universal2\")"),
 ("compare_minor_ignored", "C16", "src/dep_logic/tags/tags.py",
  "            if (self.platform.os.major, self.platform.os.minor) <= (  # type: ignore[attr-defined]\n                target.platform.os.major,  # type: ignore[attr-defined]\n                target.platform.os.minor,  # type: ignore[attr-defined]\n            ):", "            if (self.platform.os.major, 0) <= (  # type: ignore[attr-defined]\n                target.platform.os.major,  # type: ignore[attr-defined]\n                0,\n            ):"),
 ("inequality_and_expression_any", "C02", "src/dep_logic/markers/single.py",
  "            elif not any(v in other.specifier for v in self.values):\n                return other", "            elif not all(v in other.specifier for v in self.values):\n                return other"),
 ("orderedset_set_equality", "C13", "src/dep_logic/utils.py",
  "        if isinstance(other, OrderedSet):\n            return self._data == other._data\n        return super().__eq__(other)", "        return super().__eq__(other)"),
 ("exclude_keeps_empty", "", "src/dep_logic/markers/union.py",
  "        if not new_markers:\n            # All markers were the excluded marker.\n            return AnyMarker()\n", ""),
 ("platform_str_amd64", "", "src/dep_logic/tags/platform.py",
  "        if isinstance(self.os, (os.Macos, os.Windows)) and self.arch == Arch.Aarch64:", "        if isinstance(self.os, os.Windows) and self.arch == Arch.Aarch64:"),
]
out = os.path.join(os.path.dirname(os.path.abspath(__file__)), "mutants")
for f in os.listdir(out):
    os.remove(os.path.join(out, f))
for i, (name, breaks, path, old, new) in enumerate(M, 1):
    src = open(os.path.join("/repo", path)).read()
    if src.count(old) != 1:
        print("SKIP (pattern count %d): %s" % (src.count(old), name)); continue
    with tempfile.TemporaryDirectory() as d:
        a, b = os.path.join(d, "a", path), os.path.join(d, "b", path)
        os.makedirs(os.path.dirname(a)); os.makedirs(os.path.dirname(b))
        open(a, "w").write(src); open(b, "w").write(src.replace(old, new))
        diff = subprocess.run(["diff", "-u", "a/" + path, "b/" + path], cwd=d, capture_output=True, text=True).stdout
    open(os.path.join(out, f"{i:02d}_{name}.patch"), "w").write(f"# breaks: {breaks}\n" + diff)
print(len(os.listdir(out)), "mutants written")
