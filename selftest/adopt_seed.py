#!/venv/bin/python
"""adopt_seed.py Cxx [suffix] - confirm a sub-agent's seeded change myself in a scratch worktree and keep it under
/verif/seeded/<id>/ (patch.diff, demo.py, notes.md, meta.json).  Confirmed means: patch applies to /repo HEAD,
the repository's baseline still passes with it, demo.py exits 1 with the change and 0 without."""
import json, os, shutil, subprocess, sys

prop = sys.argv[1]
suffix = sys.argv[2] if len(sys.argv) > 2 else "a"
wtsrc = {"a": f"/tmp/seed_{prop}", "b": f"/tmp/seed2_{prop}", "c": f"/tmp/seed3_{prop}", "d": f"/tmp/seed4_{prop}", "e": f"/tmp/seed5_{prop}", "f": f"/tmp/seed6_{prop}", "g": f"/tmp/seed7_{prop}", "h": f"/tmp/seed8_{prop}"}[suffix]
src = f"{wtsrc}/seed"
dst = f"/verif/seeded/{prop}_{suffix}"
wt = "/tmp/vp_confirm"
subprocess.run(["git", "-C", "/repo", "worktree", "remove", "--force", wt], capture_output=True)
subprocess.run(["git", "-C", "/repo", "worktree", "add", "-q", wt, "HEAD"], check=True)
ran = []
try:
    env = dict(os.environ, PYTHONPATH=f"{wt}/src", PYTHONHASHSEED="0")
    d0 = subprocess.run(["/venv/bin/python", f"{src}/demo.py"], env=env, capture_output=True, text=True, cwd=wt)
    ran.append(f"demo.py on unmodified HEAD: exit {d0.returncode}")
    # regenerate the diff from the agent's worktree (the authoritative change)
    diff = subprocess.run(["git", "-C", wtsrc, "diff", "--", "src"], capture_output=True, text=True).stdout
    os.makedirs(dst, exist_ok=True)
    open(f"{dst}/patch.diff", "w").write(diff)
    a = subprocess.run(["git", "-C", wt, "apply", f"{dst}/patch.diff"], capture_output=True, text=True)
    ran.append(f"git apply patch.diff: exit {a.returncode} {a.stderr.strip()}")
    t = subprocess.run(["/venv/bin/python", "/verif/tools/baseline_check.py", wt], env=env, capture_output=True, text=True)
    ran.append("repository tests with the change: " + " | ".join(t.stdout.strip().splitlines()[-2:]))
    d1 = subprocess.run(["/venv/bin/python", f"{src}/demo.py"], env=env, capture_output=True, text=True, cwd=wt)
    ran.append(f"demo.py with the change: exit {d1.returncode}: {d1.stdout.strip()[:300]}")
    ok = d0.returncode == 0 and a.returncode == 0 and t.returncode == 0 and d1.returncode == 1
    for f in ("demo.py", "notes.md", "preexisting.md"):
        if os.path.exists(f"{src}/{f}"):
            shutil.copy(f"{src}/{f}", f"{dst}/{f}")
    notes = open(f"{dst}/notes.md").read() if os.path.exists(f"{dst}/notes.md") else ""
    meta = {"breaks": [prop], "origin": "fresh sub-agent given only the property text and a scratch worktree", "confirmed": ok, "what_i_ran": ran, "needs_to_manifest": notes[:1500]}
    json.dump(meta, open(f"{dst}/meta.json", "w"), indent=1)
    print("\n".join(ran))
    print("CONFIRMED" if ok else "NOT CONFIRMED", dst)
    if not ok:
        shutil.rmtree(dst)
finally:
    subprocess.run(["git", "-C", "/repo", "worktree", "remove", "--force", wt], capture_output=True)
