#!/bin/sh
# Every regression input in corpus/ must FAIL on the pinned base commit and PASS on the current tree.
BASE=${1:-accafc8}
WT=/tmp/vp_wt_base
git -C /repo worktree remove --force $WT 2>/dev/null
git -C /repo worktree add -q $WT $BASE || exit 2
rc=0
for f in /verif/corpus/*/*.json; do
  p=$(basename $(dirname $f))
  VERIF_REPO=$WT /venv/bin/python -m vpcheck $p --replay $f >/dev/null 2>&1; b=$?
  /venv/bin/python -m vpcheck $p --replay $f >/dev/null 2>&1; c=$?
  if [ $b -ne 1 ] || [ $c -ne 0 ]; then echo "UNEXPECTED $f base=$b current=$c"; rc=1; fi
done
git -C /repo worktree remove --force $WT
echo "corpus selftest rc=$rc"
exit $rc
