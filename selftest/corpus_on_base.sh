#!/bin/sh
# Every regression input in corpus/ must FAIL on the pinned base commit (or on the commit named in its
# "fails_on" field) and PASS on the current tree.
BASE=${1:-accafc8}
rc=0
for f in /verif/corpus/*/*.json; do
  p=$(basename $(dirname $f))
  c=$(/venv/bin/python -c "import json,sys; print(json.load(open('$f')).get('fails_on','$BASE'))")
  WT=/tmp/vp_wt_$c
  if [ ! -d $WT ]; then git -C /repo worktree add -q $WT $c || exit 2; fi
  VERIF_REPO=$WT /venv/bin/python -m vpcheck $p --replay $f >/dev/null 2>&1; b=$?
  /venv/bin/python -m vpcheck $p --replay $f >/dev/null 2>&1; cur=$?
  if [ $b -ne 1 ] || [ $cur -ne 0 ]; then echo "UNEXPECTED $f base($c)=$b current=$cur"; rc=1; fi
done
for d in /tmp/vp_wt_*; do git -C /repo worktree remove --force $d; done
echo "corpus selftest rc=$rc"
exit $rc
