#!/venv/bin/python
"""Rewrites the result tables of DESIGN.md §7 from selftest/results.json and selftest/results_seeded.json."""
import json, os, re
V = os.path.dirname(os.path.dirname(os.path.abspath(__file__)))


def table(path, seeded):
    if not os.path.exists(path):
        return "(not run yet)\n"
    r = json.load(open(path))
    out = ["| change | repo suite | breaks (intended) | caught by (quick tier, exit 1) | verdict |", "|---|---|---|---|---|"]
    if seeded:
        out = ["| change | repo suite | written against | its own check (final code) | other checks that caught it in an all-checks run | verdict |", "|---|---|---|---|---|---|"]
    for name in sorted(r):
        row = r[name]
        if "checks" not in row:
            continue
        exp = row.get("expected", [])
        caught = row.get("caught_by", [])
        errs = [c for c, v in row["checks"].items() if v["exit"] not in (0, 1)]
        if not exp:
            verdict = "equivalent for the listed properties (see text)" if not caught else "caught"
        else:
            verdict = "caught" if set(exp) & set(caught) else ("caught by other checks" if caught else "**MISSED**")
        if errs:
            verdict += " (harness error: " + ",".join(errs) + ")"
        suite = row.get("suite") or ("passes (confirmed when adopted)" if seeded else "?")
        if seeded:
            out.append(f"| `{name}` | {suite} | {' '.join(exp) or '-'} | {' '.join(caught) or '-'} | {' '.join(row.get('others_in_full_run', [])) or '-'} | {verdict} |")
            continue
        out.append(f"| `{name}` | {suite} | {' '.join(exp) or '-'} | {' '.join(caught) or '-'} | {verdict} |")
    return "\n".join(out) + "\n"


d = open(os.path.join(V, "DESIGN.md")).read()
for tag, path, seeded in (("mutants", "selftest/results.json", False), ("seeded", "selftest/results_seeded.json", True)):
    b, e = f"<!-- BEGIN:{tag} -->", f"<!-- END:{tag} -->"
    if b in d:
        i, j = d.index(b) + len(b), d.index(e)
        d = d[:i] + "\n" + table(os.path.join(V, path), seeded) + d[j:]
open(os.path.join(V, "DESIGN.md"), "w").write(d)
print("tables rewritten")
