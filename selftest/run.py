#!/venv/bin/python
"""Sensitivity self-test (not a registered check).

For every patch (selftest/mutants/*.patch and seeded/*/patch.diff): copy /repo to a scratch directory
outside /repo and /verif, apply the patch, run the repository's own tests there (a change the suite
already kills is reported as such), run the quick checks with VERIF_REPO=<scratch>, and compare exit
status only (1 = caught).  Scratch copies are removed afterwards.

usage: run.py [--all-checks] [--only NAME_SUBSTRING] [--seeded [--expected-only]] [--no-suite]
"""
import argparse, glob, json, os, re, shutil, subprocess, sys, time

VERIF = os.path.dirname(os.path.dirname(os.path.abspath(__file__)))
ALL = [f"C{i:02d}" for i in range(1, 20)]
ap = argparse.ArgumentParser()
ap.add_argument("--all-checks", action="store_true")
ap.add_argument("--only")
ap.add_argument("--seeded", action="store_true")
ap.add_argument("--no-suite", action="store_true")
ap.add_argument("--expected-only", action="store_true", help="seeded: run only the check(s) of the property the change was written against")
ap.add_argument("--out", default=os.path.join(VERIF, "selftest", "results.json"))
args = ap.parse_args()

items = []
if args.seeded:
    for d in sorted(glob.glob(os.path.join(VERIF, "seeded", "*"))):
        p = os.path.join(d, "patch.diff")
        if os.path.exists(p):
            meta = json.load(open(os.path.join(d, "meta.json"))) if os.path.exists(os.path.join(d, "meta.json")) else {}
            items.append((os.path.basename(d), p, meta.get("breaks", [])))
else:
    for p in sorted(glob.glob(os.path.join(VERIF, "selftest", "mutants", "*.patch"))):
        first = open(p).readline()
        breaks = re.findall(r"C\d\d", first)
        items.append((os.path.basename(p)[:-6], p, breaks))
if args.only:
    items = [x for x in items if args.only in x[0]]

results = json.load(open(args.out)) if os.path.exists(args.out) else {}
for name, patch, breaks in items:
    scratch = f"/tmp/vp_selftest_{name}"
    shutil.rmtree(scratch, ignore_errors=True)
    shutil.copytree("/repo", scratch, ignore=shutil.ignore_patterns(".git", "__pycache__", ".pytest_cache"))
    try:
        r = subprocess.run(["patch", "-p1", "-s", "-i", patch], cwd=scratch, capture_output=True, text=True)
        if r.returncode != 0:
            print(f"{name}: PATCH FAILED {r.stdout[-200:]}{r.stderr[-200:]}")
            results[name] = {"error": "patch failed"}
            continue
        suite = None
        if not args.no_suite:
            env = dict(os.environ, PYTHONPATH=os.path.join(scratch, "src"))
            t = subprocess.run(["/venv/bin/python", os.path.join(VERIF, "tools", "baseline_check.py"), scratch], env=env, capture_output=True, text=True)
            suite = "passes" if t.returncode == 0 else "KILLED-BY-SUITE"
        checks = ALL if (args.all_checks or (args.seeded and not args.expected_only)) else sorted(set(breaks))
        row = {"suite": suite, "expected": breaks, "checks": {}}
        for c in checks:
            t0 = time.time()
            p = subprocess.run(["/venv/bin/python", "-m", "vpcheck", c, "--tier", "quick"], cwd=VERIF, env=dict(os.environ, VERIF_REPO=scratch, VERIF_NO_EVIDENCE="1"), capture_output=True, text=True)
            row["checks"][c] = {"exit": p.returncode, "s": round(time.time() - t0, 1)}
            if p.returncode == 2:
                row["checks"][c]["err"] = p.stderr[-300:]
        caught = [c for c, v in row["checks"].items() if v["exit"] == 1]
        row["caught_by"] = caught
        results[name] = row
        print(f"{name}: suite={suite} expected={breaks} caught_by={caught} " + " ".join(f"{c}={v['exit']}" for c, v in row["checks"].items() if v["exit"] not in (0, 1)))
        sys.stdout.flush()
    finally:
        shutil.rmtree(scratch, ignore_errors=True)
        json.dump(results, open(args.out, "w"), indent=1)
