"""Reproduces the findings of hunt2 / C03 (marker evaluation vs. packaging).

Run as:  PYTHONPATH=<checkout>/src /venv/bin/python demo.py
Exit status 1 if at least one finding reproduces, 0 otherwise.
Only the public API is used: dep_logic.markers.parse_marker(text).evaluate(env)
compared with packaging.markers.Marker(text).evaluate(env).
"""
import sys

from packaging.markers import Marker

from dep_logic.markers import parse_marker

ENV_385 = {"python_version": "3.8", "python_full_version": "3.8.5"}
ENV_301 = {"python_version": "3.0", "python_full_version": "3.0.1"}

# (finding id, marker text, environment, truth value demanded by the reference)
CASES = [
    # A: python_version literal that is not a plain dotted number with <= 2 segments is
    #    carried verbatim into python_full_version space when merged with a
    #    python_full_version atom -> wrong truth value
    ("A1 wildcard, 3 segments", 'python_version == "3.8.0.*" and python_full_version >= "3.8.1"', ENV_385, True),
    ("A1 wildcard, 3 segments (or)", 'python_version != "3.8.0.*" or python_full_version == "3.8.5"', ENV_385, True),
    ("A1 wildcard, non-zero tail", 'python_version == "3.8.1.*" and python_full_version == "3.8.1"',
     {"python_version": "3.8", "python_full_version": "3.8.1"}, False),
    ("A1 digits only (wildcard produced by the library's own merge)",
     '(python_version < "3.8.0.0" or python_version >= "3.8.1") and python_full_version >= "3.8.1"', ENV_385, False),
    ("A1 'v' prefix", 'python_version >= "v3.8.1" and python_full_version >= "3.8.2"', ENV_385, False),
    ("A1 pre-release suffix", 'python_version >= "3.8.1rc1" and python_full_version >= "3.8.2"', ENV_385, False),
    ("A1 post-release suffix", 'python_version <= "3.8.post1" or python_full_version <= "3.8.1"', ENV_385, True),
    ("A1 two segments, post", 'python_version >= "3.post1" and python_full_version >= "3.0.1"', ENV_301, False),
    # A2: same function, the literal's last segment is fed to int() / gets ".*" appended -> parse_marker raises
    ("A2 crash int()", 'python_version > "3.8rc1" and python_full_version > "3.8"', ENV_385, True),
    ("A2 crash ==X.Yrc1.*", 'python_version != "3.8rc1" and python_full_version > "3.8"', ENV_385, True),
    # B (borderline): a literal that is no version on one of the two python version variables,
    #    compared with == / != (defined by the reference as string comparison) -> parse_marker raises
    ("B crash non-version literal", 'python_full_version != "unknown" and python_version >= "3.0"', ENV_385, True),
    ("B crash non-version literal (pv)", 'python_version != "unknown" or python_full_version >= "3.9"', ENV_385, True),
]


def main() -> int:
    reproduced = 0
    for ident, text, env, expected in CASES:
        ref = Marker(text).evaluate(env)
        if ref != expected:
            print(f"[note] reference verdict changed for {text!r}: {ref} (expected {expected})")
        try:
            marker = parse_marker(text)
            got = marker.evaluate(env)
            shown = f"{got}   (parsed as: {str(marker)!r})"
        except Exception as exc:  # a crash where the reference has a truth value
            got = None
            shown = f"raises {type(exc).__name__}: {exc}"
        ok = got == ref
        reproduced += not ok
        print(f"{'ok      ' if ok else 'VIOLATED'} [{ident}]\n    marker   : {text}\n    env      : {env}\n"
              f"    library  : {shown}\n    reference: {ref}")
    print(f"\n{reproduced} of {len(CASES)} cases reproduce")
    return 1 if reproduced else 0


if __name__ == "__main__":
    sys.exit(main())
