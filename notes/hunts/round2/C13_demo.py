"""C13 second-round hunt: reproduces the (borderline) observations of findings.md.

Run as:  PYTHONPATH=<checkout>/src /venv/bin/python demo.py
Exit status 1 if at least one observation reproduces, 0 otherwise.

NOTE: no *clear* in-quantifier violation was found; B1-B3 are borderline (see findings.md).
"""
import sys

from dep_logic.markers import parse_marker
from dep_logic.markers.single import EqualityMarkerUnion, MarkerExpression
from dep_logic.specifiers import (
    AnySpecifier,
    GenericSpecifier,
    RangeSpecifier,
    parse_version_specifier,
)
from dep_logic.utils import OrderedSet

reproduced = []


def outcome(f):
    try:
        return ("ok", repr(f()))
    except Exception as e:  # noqa: BLE001
        return ("raises", type(e).__name__)


# ---------------------------------------------------------------- B1
# The two spellings of the universal set compare equal (and now hash alike) but are not
# interchangeable: one is a VersionSpecifier, the other is not.
x = ~~parse_version_specifier("")  # AnySpecifier, produced by the version algebra itself
y = parse_version_specifier("")  # RangeSpecifier()
assert isinstance(x, AnySpecifier) and isinstance(y, RangeSpecifier)
if x == y and y == x and hash(x) == hash(y):
    diffs = []
    g = GenericSpecifier("==", "posix")
    for label, f in (
        ("g & u", lambda u: g & u),
        ("g | u", lambda u: g | u),
        ("u & g", lambda u: u & g),
        ("u.to_specifierset()", lambda u: u.to_specifierset()),
        ("u.num_parts", lambda u: u.num_parts),
        ("u.is_simple()", lambda u: u.is_simple()),
    ):
        ox, oy = outcome(lambda: f(x)), outcome(lambda: f(y))
        if ox != oy:
            diffs.append(f"{label}: AnySpecifier -> {ox}, RangeSpecifier() -> {oy}")
    if diffs:
        reproduced.append("B1")
        print("B1 (borderline) equal universal specifiers are not interchangeable:")
        for d in diffs:
            print("     ", d)

# ---------------------------------------------------------------- B2
# OrderedSet equality is order-sensitive only against the very same class; against every
# other Set (frozenset, and the library's own stale duplicate dep_logic.markers.utils.OrderedSet)
# it is order-insensitive, not hash-compatible and not transitive.
import dep_logic.markers.utils as stale  # noqa: E402

a, b = OrderedSet(["x", "y"]), OrderedSet(["y", "x"])
f = frozenset({"x", "y"})
s = stale.OrderedSet(["y", "x"])
msgs = []
if a == f and f == b and a != b:
    msgs.append("transitivity: OrderedSet[x,y] == frozenset{x,y} == OrderedSet[y,x] but OrderedSet[x,y] != OrderedSet[y,x]")
if a == f and hash(a) != hash(f):
    msgs.append("OrderedSet[x,y] == frozenset{x,y} but hashes differ")
if a == s and hash(a) != hash(s):
    msgs.append("dep_logic.utils.OrderedSet[x,y] == dep_logic.markers.utils.OrderedSet[y,x] but hashes differ")
if stale.OrderedSet(["x", "y"]) == s and stale.OrderedSet is not OrderedSet:
    msgs.append("dep_logic.markers.utils.OrderedSet (second copy) is still order-insensitive: fix 04272df reached one copy only")
e1 = EqualityMarkerUnion("os_name", a)
e2 = EqualityMarkerUnion("os_name", s)
if e1 == e2 and (hash(e1) != hash(e2) or str(e1) != str(e2)):
    msgs.append(f"markers equal but hash/text differ: {e1!s}  vs  {e2!s}")
if msgs:
    reproduced.append("B2")
    print("B2 (borderline) OrderedSet vs other Set implementations:")
    for m in msgs:
        print("     ", m)

# ---------------------------------------------------------------- B3
# Derived views are kept in *init* fields that are excluded from ==/hash
# (MarkerExpression._specifier, RangeSpecifier.simplified, UnionSpecifier.simplified), so
# dataclasses.replace() - the standard way to derive a changed copy of a (frozen) dataclass -
# carries the stale view over. The copy equals a freshly parsed object but means something else,
# and through the process-wide lru_caches it poisons the fresh objects as well.
import dataclasses  # noqa: E402

from packaging.version import Version  # noqa: E402

msgs = []
m = parse_marker('python_version >= "3.8"')
_ = m & parse_marker('python_version < "4.0"')  # any earlier algebra fills m._specifier
n = dataclasses.replace(m, value="3.10")
fresh = parse_marker('python_version >= "3.10"')
z = parse_marker('python_version < "3.9"')
env = {"python_version": "3.9", "python_full_version": "3.9.1"}
if n == fresh and hash(n) == hash(fresh) and str(n) == str(fresh):
    r = n | z
    if r.evaluate(env) != (n.evaluate(env) or z.evaluate(env)):
        msgs.append(f"replace()d atom {n} equals the parsed one, but ({n}) | ({z}) -> {r!r} (python 3.9 must be excluded)")
    r2 = fresh | z
    if r2.evaluate(env) != (fresh.evaluate(env) or z.evaluate(env)):
        msgs.append(f"...and the freshly parsed, untouched atoms now give the same wrong cached answer: {r2!r}")
rx = dataclasses.replace(parse_version_specifier(">=1.0"), include_min=False)
ry = parse_version_specifier(">1.0")
if rx == ry and hash(rx) == hash(ry) and rx.contains("1.0") != ry.contains("1.0"):
    msgs.append(f"RangeSpecifier: replace(>=1.0, include_min=False) == parse('>1.0') but str {str(rx)!r} vs {str(ry)!r}, contains('1.0') {rx.contains('1.0')} vs {ry.contains('1.0')}")
if msgs:
    reproduced.append("B3")
    print("B3 (borderline) non-compared init fields survive dataclasses.replace():")
    for mm in msgs:
        print("     ", mm)

print("reproduced:", reproduced or "nothing")
sys.exit(1 if reproduced else 0)
