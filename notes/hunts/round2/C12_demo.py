"""Reproduces the C12 findings through the public API.

Run as:  PYTHONPATH=<checkout>/src /venv/bin/python demo.py
Exit status 1 if at least one finding reproduces, 0 otherwise.
"""
from __future__ import annotations

import sys

from packaging.markers import Marker

from dep_logic.markers import MarkerUnion, parse_marker
from dep_logic.markers.multi import MultiMarker
from dep_logic.markers.single import SingleMarker


def env(full: str, **kw: object) -> dict:
    d: dict = {
        "python_full_version": full,
        "python_version": ".".join(full.split(".")[:2]),
    }
    d.update(kw)
    return d


def names_of(m) -> set[str]:
    if isinstance(m, SingleMarker):
        return {m.name}
    if isinstance(m, (MultiMarker, MarkerUnion)):
        out: set[str] = set()
        for x in m.markers:
            out |= names_of(x)
        return out
    return set()


reproduced: list[str] = []


def finding(tag: str, ok: bool, detail: str) -> None:
    print(f"[{'REPRODUCED' if ok else 'not reproduced'}] {tag}: {detail}")
    if ok:
        reproduced.append(tag)


# --------------------------------------------------------------------------
# F1  only() is NOT implied by m: python_version literal with more than two
#     segments that are not all digits (multi-segment wildcard, v-prefix,
#     explicit epoch) is copied untranslated into python_full_version space.
# --------------------------------------------------------------------------
def f1(text: str, full: str) -> None:
    m = parse_marker(text)
    r = m.only("python_version", "python_full_version")
    e = env(full, os_name="nt")
    ref = Marker(text).evaluate(e)
    mv = m.evaluate(e)
    rv = r.evaluate(e)
    leak = names_of(r) - {"python_version", "python_full_version"}
    finding(
        "F1",
        bool(mv and ref and not rv and not leak),
        f"{text!r}: only(python_version, python_full_version) -> {str(r)!r}; "
        f"env python_full_version={full}, os_name=nt: packaging={ref} m={mv} only={rv}",
    )


f1(
    'python_version == "3.8.0.*" and os_name == "nt"'
    ' or python_full_version < "3.8.0" and os_name == "posix"',
    "3.8.5",
)
f1(
    'python_version < "v3.8.1" and os_name == "nt"'
    ' or python_full_version < "3.8.3" and os_name == "posix"',
    "3.8.5",
)
f1(
    'python_version <= "0!3.8.1" and os_name == "nt"'
    ' or python_full_version < "3.8.3" and os_name == "posix"',
    "3.8.5",
)

# --------------------------------------------------------------------------
# F2  only()/exclude() raise instead of returning a marker: the cross merge
#     python_version x python_full_version is done outside the try block that
#     tolerates literals which are not versions.
# --------------------------------------------------------------------------
text = (
    'python_version != "none" and os_name == "nt"'
    ' or python_full_version >= "3.8" and os_name == "posix"'
)
m = parse_marker(text)  # parses fine
e = env("3.9.1", os_name="nt")
ok_before = m.evaluate(e) is True and Marker(text).evaluate(e) is True
for call, args in (("only", ("python_version", "python_full_version")), ("exclude", ("os_name",))):
    try:
        r = getattr(m, call)(*args)
        finding("F2", False, f"{call}{args} -> {str(r)!r}")
    except Exception as ex:  # noqa: BLE001
        finding("F2", ok_before, f"{text!r}: {call}{args} raised {type(ex).__name__}: {ex}")

# --------------------------------------------------------------------------
# F3  (borderline: un-normalised tree + platform_release value that is not a
#     PEP 440 version)  exclude()/only() of an unmentioned / fully kept
#     variable changes the meaning, because the re-normalisation assumes
#     trichotomy for platform_release.
# --------------------------------------------------------------------------
a = parse_marker('platform_release != "5.10.0"')
b = parse_marker('platform_release < "6.1"')
m = MarkerUnion(a, b)
e = {"platform_release": "5.10.0-8-amd64"}
ref = Marker(str(m)).evaluate(e)
mv = m.evaluate(e)
r1 = m.exclude("os_name")
r2 = m.only("platform_release")
finding(
    "F3",
    (mv is False and ref is False and r1.evaluate(e) is True and r2.evaluate(e) is True),
    f"MarkerUnion({a}, {b}) on platform_release='5.10.0-8-amd64': packaging={ref} m={mv}; "
    f"exclude('os_name') -> {str(r1)!r} = {r1.evaluate(e)}; only('platform_release') -> {str(r2)!r} = {r2.evaluate(e)}",
)

# --------------------------------------------------------------------------
# F4  (borderline: spelling of the *name argument*)  the parser accepts the
#     PEP 345 aliases os.name / sys.platform / platform.machine /
#     python_implementation, but exclude()/only() only know the canonical name.
# --------------------------------------------------------------------------
for text, alias in (('os.name == "nt"', "os.name"), ('python_implementation == "CPython"', "python_implementation")):
    m = parse_marker(text)
    ex = m.exclude(alias)
    on = m.only(alias)
    finding(
        "F4",
        bool(names_of(ex)) and on.is_any(),
        f"{text!r}: exclude({alias!r}) -> {str(ex)!r} (variable still present); only({alias!r}) -> {str(on)!r} (not equal to m)",
    )

print()
print("reproduced:", sorted(set(reproduced)) or "nothing")
sys.exit(1 if reproduced else 0)
