"""Reproduces the C08 round-2 findings through the public API.

Run as:  PYTHONPATH=<checkout>/src /venv/bin/python demo.py
Exit status 1 if at least one finding reproduces, 0 otherwise.
"""
import sys

from dep_logic.tags import EnvSpec

reproduced = []


def check(label, condition, detail):
    print(("REPRODUCED " if condition else "not reproduced ") + label + ": " + detail)
    if condition:
        reproduced.append(label)


# ---------------------------------------------------------------------------
# F1: native-ABI wheels of PyPy interpreters whose SOABI does not repeat the
#     Python version (PyPy 2.7 "pypy_73"/"pypy_41", PyPy3.6 <= 7.2 "pypy3_72")
#     are never compatible, although the python tag matches an admitted
#     interpreter and the implementation is the stated one.
# ---------------------------------------------------------------------------
env = EnvSpec.from_spec("==2.7.*", None, "pypy")
got = env.wheel_compatibility("cffi-1.14.0-pp27-pypy_73-any.whl")
ctrl = env.wheel_compatibility("cffi-1.14.0-pp27-none-any.whl")
check("F1a pp27-pypy_73", got is None and ctrl is not None,
      f"{env} pp27-pypy_73 -> {got} (pp27-none -> {ctrl}); expected (2, 7, 2, -1)")

env = EnvSpec.from_spec(">=2.7")  # implementation unspecified
got = env.wheel_compatibility("cffi-1.14.0-pp27-pypy_41-any.whl")
check("F1b pp27-pypy_41, no implementation", got is None,
      f"{env} pp27-pypy_41 -> {got}; expected (2, 7, 2, -1)")

env = EnvSpec.from_spec("==3.6.*", None, "pypy")
got = env.wheel_compatibility("cffi-1.14.0-pp36-pypy3_72-any.whl")
ctrl = env.wheel_compatibility("cffi-1.14.0-pp36-pypy36_pp73-any.whl")
check("F1c pp36-pypy3_72", got is None and ctrl is not None,
      f"{env} pp36-pypy3_72 -> {got} (pp36-pypy36_pp73 -> {ctrl}); expected (3, 6, 2, -1)")

# ---------------------------------------------------------------------------
# F2: from_spec(..., gil_disabled=True) without an implementation silently
#     drops the free-threading flag: GIL-only ABIs and abi3 are accepted.
# ---------------------------------------------------------------------------
ft = EnvSpec.from_spec(">=3.13", None, None, True)
ft_cp = EnvSpec.from_spec(">=3.13", None, "cpython", True)
names = ["x-1-cp313-cp313-any.whl", "x-1-cp313-abi3-any.whl", "x-1-cp313-cp313t-any.whl"]
got = [ft.wheel_compatibility(n) for n in names]
ref = [ft_cp.wheel_compatibility(n) for n in names]
check("F2 gil_disabled without implementation",
      got[0] is not None and got[1] is not None and ref[0] is None and ref[1] is None,
      f"from_spec('>=3.13', gil_disabled=True): cp313-cp313 -> {got[0]}, cp313-abi3 -> {got[1]}, "
      f"cp313-cp313t -> {got[2]}; with implementation='cpython' -> {ref}; as_dict()={ft.as_dict()}")

# ---------------------------------------------------------------------------
# F3: implementation="pyston" accepts only the invented prefix "pt"; the tags
#     that the reference generates on Pyston (pyston38-...) are rejected, also
#     by a spec with no implementation at all (the prefix is sliced to "py").
# ---------------------------------------------------------------------------
env = EnvSpec.from_spec("==3.8.*", None, "pyston")
own_native = env.wheel_compatibility("x-1-pyston38-pyston_23_x86_64_linux_gnu-any.whl")
own_none = env.wheel_compatibility("x-1-pyston38-none-any.whl")
invented = env.wheel_compatibility("x-1-pt38-none-any.whl")
anyimpl = EnvSpec.from_spec("==3.8.*").wheel_compatibility("x-1-pyston38-none-any.whl")
check("F3 pyston tags", own_native is None and own_none is None and anyimpl is None,
      f"{env}: pyston38-pyston_23_x86_64_linux_gnu -> {own_native}, pyston38-none -> {own_none}, "
      f"pt38-none -> {invented}; spec without implementation: pyston38-none -> {anyimpl}")

print()
print(f"{len(reproduced)} check(s) reproduced: {reproduced}")
sys.exit(1 if reproduced else 0)
