"""Reproduces the finding of hunt2 C11 through the public API.

Run as:  PYTHONPATH=<checkout>/src /venv/bin/python demo.py
Exit status 1 if at least one finding reproduces, 0 otherwise.

Finding 1 (BORDERLINE w.r.t. the quantifier): a python_version atom whose literal
has more than two release segments and is NOT a plain comparison - a wildcard
(== / != "X.Y.Z.*") or an in / not in list with X.Y.Z items - is moved into
python_full_version space verbatim when it is merged with a python_full_version
atom, although python_version only ever holds X.Y.  The conjunction / disjunction
then evaluates differently from its two operands.
"""
import sys

from packaging.markers import Marker

from dep_logic.markers import parse_marker

CASES = [
    # (left atom, connective, right atom, interpreter that shows the difference)
    ('python_version == "3.8.0.*"', "and", 'python_full_version >= "3.8.1"', "3.8.1"),
    ('python_version != "3.8.0.*"', "and", 'python_full_version >= "3.8.1"', "3.8.1"),
    ('python_version == "3.8.0.*"', "or", 'python_full_version < "3.8"', "3.8.1"),
    ('python_version in "3.8.0"', "and", 'python_full_version >= "3.8.1"', "3.8.1"),
    ('python_version not in "3.8.0, 3.9.0"', "and", 'python_full_version >= "3.9"', "3.9.1"),
]


def env(full: str) -> dict[str, str]:
    major, minor, _ = full.split(".")
    return {"python_version": f"{major}.{minor}", "python_full_version": full}


def main() -> int:
    reproduced = 0
    for left, conn, right, full in CASES:
        e = env(full)
        text = f"{left} {conn} {right}"
        a, b = parse_marker(left), parse_marker(right)
        merged = (a & b) if conn == "and" else (a | b)
        parsed = parse_marker(text)
        la, lb = a.evaluate(e), b.evaluate(e)
        want = (la and lb) if conn == "and" else (la or lb)
        ref = Marker(text).evaluate(e)
        # the specifier view of the python_version atom agrees with its evaluation
        view = a.specifier.contains(e["python_version"])
        got_op = merged.evaluate(e)
        got_parse = parsed.evaluate(e)
        bad = got_op != want or got_parse != want
        print(
            f"{text!r} on Python {full}:\n"
            f"    operands evaluate to {la} / {lb} (view of the python_version atom: {view}),"
            f" packaging says {ref}\n"
            f"    a {'&' if conn == 'and' else '|'} b  -> {str(merged)!r} evaluates to {got_op}\n"
            f"    parse_marker  -> {str(parsed)!r} evaluates to {got_parse}\n"
            f"    {'REPRODUCED' if bad else 'ok'}"
        )
        reproduced += bad
    print(f"{reproduced} of {len(CASES)} cases reproduce")
    return 1 if reproduced else 0


if __name__ == "__main__":
    sys.exit(main())
