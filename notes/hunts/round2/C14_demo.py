"""Reproduces the C14 (Boolean-algebra laws) findings through the public API.

Run as:  PYTHONPATH=<checkout>/src /venv/bin/python demo.py
Exit status 1 if at least one finding reproduces, 0 otherwise.
"""
import sys

from packaging.markers import Marker

from dep_logic.markers import parse_marker as P


def py_env(full):
    return {"python_full_version": full, "python_version": ".".join(full.split(".")[:2])}


def ref(text, env):
    """Reference verdict of packaging for one operand."""
    return Marker(text).evaluate(env)


def report(title, law, lhs, rhs, env, expected):
    l, r = lhs.evaluate(env), rhs.evaluate(env)
    bad = l != r
    print(f"[{'REPRODUCED' if bad else 'not reproduced'}] {title}")
    print(f"    law      : {law}")
    print(f"    left     : {lhs}   -> {l}")
    print(f"    right    : {rhs}   -> {r}")
    print(f"    env      : {env}")
    print(f"    reference: both sides must be {expected}")
    return bad


found = []

# ---------------------------------------------------------------------------
# Finding 1: python_version literals with more than two segments that are not
# plain digits (3-segment wildcard, "v"/epoch prefix, ...) are copied verbatim
# into python_full_version space by _normalize_python_version_specifier.
# ---------------------------------------------------------------------------
# 1a  distributivity, `!=` wildcard
sa, sb, sc = 'python_version != "3.9.0.*"', 'python_full_version < "3.9.0"', 'python_full_version > "3.9.0"'
a, b, c = P(sa), P(sb), P(sc)
env = py_env("3.9.1")
exp = ref(sa, env) and (ref(sb, env) or ref(sc, env))
found.append(report("1a python_version != '3.9.0.*' : a & (b | c) vs (a & b) | (a & c)",
                    f"a & (b | c) == (a & b) | (a & c)   a={sa}  b={sb}  c={sc}",
                    a & (b | c), (a & b) | (a & c), env, exp))

# 1b  distributivity, `==` wildcard
sa = 'python_version == "3.9.0.*"'
a = P(sa)
exp = ref(sa, env) or (ref(sb, env) and ref(sc, env))
found.append(report("1b python_version == '3.9.0.*' : a | (b & c) vs (a | b) & (a | c)",
                    f"a | (b & c) == (a | b) & (a | c)   a={sa}  b={sb}  c={sc}",
                    a | (b & c), (a | b) & (a | c), env, exp))

# 1c  associativity, `!=` wildcard
sa, sb, sc = 'python_version != "3.9.0.*"', 'python_full_version < "3.10"', 'python_full_version >= "3.9.0"'
a, b, c = P(sa), P(sb), P(sc)
exp = ref(sa, env) and ref(sb, env) and ref(sc, env)
found.append(report("1c python_version != '3.9.0.*' : (a & b) & c vs a & (b & c)",
                    f"(a & b) & c == a & (b & c)   a={sa}  b={sb}  c={sc}",
                    (a & b) & c, a & (b & c), env, exp))

# 1d  absorption, "v" prefix (a valid PEP 440 spelling of 3.9.1)
sa, sb = 'python_full_version >= "3.9.1"', 'python_version >= "v3.9.1"'
a, b = P(sa), P(sb)
exp = ref(sa, env)
found.append(report("1d python_version >= 'v3.9.1' : a & (a | b) vs a",
                    f"a & (a | b) == a   a={sa}  b={sb}",
                    a & (a | b), a, env, exp))

# ---------------------------------------------------------------------------
# Finding 2: platform_release atoms are merged as if `!=` were the complement of
# `==` (and `<` of `>=`), but on an ordinary Linux kernel string, which is not a
# PEP 440 version, every such comparison evaluates to False (library and
# packaging agree on that).  a | a is not equivalent to a.
# ---------------------------------------------------------------------------
sa = '(platform_release == "5.4" and sys_platform == "linux") or platform_release != "5.4"'
a = P(sa)
env = {"platform_release": "5.15.0-91-generic", "sys_platform": "linux"}
exp = ref(sa, env)
found.append(report("2  platform_release with a non-version kernel string : a | a vs a",
                    f"a | a == a   a={sa}",
                    a | a, a, env, exp))

print()
print(f"{sum(found)} of {len(found)} checks reproduce a law violation")
sys.exit(1 if any(found) else 0)
