"""C06 round-2 hunt: no violation of the str()/parse round-trip property was found.

There is no finding to reproduce, so this program exits 0.  To make that
statement checkable it re-runs a compact version of the searches described in
findings.md (deterministic, a few seconds) and exits 1 if any of them ever
produces a round-trip violation through the public API.

Run as:  PYTHONPATH=<checkout>/src /venv/bin/python demo.py
"""
import itertools
import random
import sys

from packaging.specifiers import SpecifierSet
from packaging.version import Version

from dep_logic.specifiers import (
    AnySpecifier,
    EmptySpecifier,
    RangeSpecifier,
    parse_version_specifier as P,
)


def ivs(s):
    if isinstance(s, EmptySpecifier):
        return []
    if isinstance(s, AnySpecifier):
        return [(None, False, None, False)]
    if isinstance(s, RangeSpecifier):
        return [(s.min, s.include_min, s.max, s.include_max)]
    return [(r.min, r.include_min, r.max, r.include_max) for r in s.ranges]


def member(L, v):
    for a, ia, b, ib in L:
        if a is not None and (v < a or (v == a and not ia)):
            continue
        if b is not None and (v > b or (v == b and not ib)):
            continue
        return True
    return False


def text_member(t, v):
    if t == "<empty>":
        return False
    return any(SpecifierSet(p).contains(v, prereleases=True) for p in t.split("||"))


def known_accepted(s, t):
    # [X.Y, (X+1).0.postN) renders as ~=X.Y : pinned by an existing test
    return "~=" in t and any(b is not None and b.is_postrelease for (_, _, b, _) in ivs(s))


CANDS = [
    Version(f"{e}{r}")
    for e in ("", "1!")
    for r in "0 0.0.1 0.9 0.10 1 1.0.1 1.0.0.1 1.1 1.1.1 1.2 1.2.0.1 1.2.1 1.2.3 1.2.4 1.3 1.9 1.10 2 2.0.1 2.1 3".split()
]

violations = []


def check(s, how):
    try:
        t = str(s)
        r = P(t)
    except Exception as e:  # str() or re-parse failed
        violations.append((how, "raises", repr(e)))
        return
    if known_accepted(s, t):
        return
    if not (r == s and s == r) or ivs(r) != ivs(s):
        violations.append((how, t, str(r)))
        return
    L = ivs(s)
    for v in CANDS:  # independent reading of the rendered text (final releases only)
        if member(L, v) != text_member(t, v):
            violations.append((how, t, f"differs from packaging at {v}"))
            return


# 1. every pair of bounds from a pool of shapes, as range and as two-range union
rels = [".".join(map(str, t)) for n in (1, 2, 3) for t in itertools.product((0, 1, 2), repeat=n)]
rels += ["1.9", "1.10", "1.2.0.0", "1.2.3.4"]
sufs = ["", "a1", ".post1", ".dev1", ".dev0"]
vers = [f"{e}{r}{s}" for e in ("", "1!") for r in rels for s in sufs]
V = {v: Version(v) for v in vers}
random.seed(6)
pairs = [(a, b) for a in vers for b in vers if V[a] < V[b]]
for a, b in random.sample(pairs, 15000):
    check(P(f">={a},<{b}"), f">={a},<{b}")
    check(P(f"<{a}||>={b}"), f"<{a}||>={b}")

# 2. random algebra (&, |, ~) over parsed atoms
ops = [">=", ">", "<", "<=", "==", "!=", "~="]
atoms = []
for v in vers[::3]:
    for op in ops:
        if op == "~=" and len(V[v].release) < 2:
            continue
        atoms.append(op + v)
    if not (V[v].is_prerelease or V[v].is_postrelease):
        atoms += [f"=={v}.*", f"!={v}.*"]
pool = [(a, P(a)) for a in atoms]
for a, s in pool:
    check(s, a)
for _ in range(20000):
    (a, x), (b, y) = random.choice(pool), random.choice(pool)
    k = random.random()
    try:
        if k < 0.4:
            how, z = f"({a})&({b})", x & y
        elif k < 0.8:
            how, z = f"({a})|({b})", x | y
        else:
            how, z = f"~({a})", ~x
    except Exception as e:
        violations.append((f"{a} ? {b}", "operator raises", repr(e)))
        continue
    check(z, how)
    if len(how) < 100 and random.random() < 0.3:
        pool.append((how, z))

for v in violations[:20]:
    print("VIOLATION", v)
print(f"{len(violations)} violations")
sys.exit(1 if violations else 0)
