"""C07 round-trip demo.  Run:  PYTHONPATH=<checkout>/src /venv/bin/python demo.py

Exit status 1 if at least one finding reproduces, 0 otherwise.

Finding 1: a marker m built with `|` from well-defined atoms is rendered in
conjunctive form "(A or B) and (C or D)".  m itself is right (it agrees with
packaging evaluating str(m) and with the truth table of its operands), but
parse_marker(str(m)) evaluates differently: re-parsing distributes the
conjunction, which makes `python_version <op> "<literal with more than two
segments that are not all digits>"` meet a python_full_version atom for the
first time, and that pair is merged with the *raw* specifier of the
python_version atom (dep_logic.markers.single._normalize_python_version_specifier
falls back to `marker.specifier`).
"""

from __future__ import annotations

import sys

from packaging.markers import Marker as PkgMarker

from dep_logic.markers import parse_marker

FULLS = ["3.7.0", "3.7.9", "3.8.0", "3.8.1", "3.8.2", "3.8.5", "3.9.0", "3.9.1", "3.10.0"]
ENVS = [
    {
        "python_full_version": f,
        "python_version": ".".join(f.split(".")[:2]),
        "os_name": o,
        "extra": "",
    }
    for f in FULLS
    for o in ("nt", "posix")
]

# (operand A, operand B); m = parse_marker(A) | parse_marker(B)
CASES = [
    # smallest / cleanest: wildcard literal with three segments, nothing pre/post/dev
    (
        'os_name != "nt" and python_full_version >= "3.8"',
        'os_name == "nt" and python_version != "3.8.0.*"',
    ),
    # same root cause, other spellings of the python_version literal
    (
        'os_name != "nt" and python_full_version < "3.9"',
        'os_name == "nt" and python_version >= "0!3.8.1"',
    ),
    (
        'os_name != "nt" and python_full_version < "3.9"',
        'os_name == "nt" and python_version >= "v3.8.1"',
    ),
    (
        'os_name != "nt" and python_full_version < "3.9"',
        'os_name == "nt" and python_version >= "3.8.1rc1"',
    ),
]


def run_case(a: str, b: str) -> bool:
    """True if the round-trip property is violated for m = A | B."""
    m = parse_marker(a) | parse_marker(b)
    text = str(m)
    print(f"A          : {a}")
    print(f"B          : {b}")
    print(f"str(A | B) : {text}")
    if m.is_any() or m.is_empty():
        print("  (trivial result, nothing to check)\n")
        return False
    try:
        PkgMarker(text)
        reparsed = parse_marker(text)
    except Exception as exc:  # noqa: BLE001
        print(f"  str(m) is not re-parseable: {type(exc).__name__}: {exc}\n")
        return True
    print(f"re-parsed  : {reparsed}")
    violated = False
    for env in ENVS:
        truth = PkgMarker(a).evaluate(env) or PkgMarker(b).evaluate(env)
        got_m = m.evaluate(env)
        got_pkg = PkgMarker(text).evaluate(env)
        got_re = reparsed.evaluate(env)
        if got_m != got_re:
            violated = True
            print(
                f"  env python_full_version={env['python_full_version']} os_name={env['os_name']}: "
                f"m={got_m} (operands' truth={truth}, packaging on str(m)={got_pkg})  "
                f"parse_marker(str(m))={got_re}   <-- round trip differs"
            )
    print("  VIOLATED\n" if violated else "  ok\n")
    return violated


def main() -> int:
    reproduced = [run_case(a, b) for a, b in CASES]
    print(f"{sum(reproduced)} of {len(reproduced)} cases reproduce")
    return 1 if any(reproduced) else 0


if __name__ == "__main__":
    sys.exit(main())
