"""Reproduces the C18 round-2 findings through the public API.

Run as:  PYTHONPATH=<checkout>/src /venv/bin/python demo.py
Exit status 1 if at least one finding reproduces, 0 otherwise.
"""
import sys

from packaging import tags as ptags
from packaging.utils import parse_wheel_filename

from dep_logic.tags import EnvSpec, InvalidWheelFilename, Platform

reproduced = []


def report(name, happened, detail):
    print(f"[{'REPRODUCED' if happened else 'not reproduced'}] {name}: {detail}")
    if happened:
        reproduced.append(name)


# ---------------------------------------------------------------- finding 1
# A generic "py" python tag whose version part is spelled like a PEP 440
# pre/post/dev release (packaging accepts the name: the tag is an identifier)
# makes wheel_compatibility raise a bare ValueError, even if another tag of the
# compressed set is perfectly fine.
env = EnvSpec.from_spec(">=3.8")
baseline = env.wheel_compatibility("foo-1.0-py3-none-any.whl")
for fn in (
    "foo-1.0-py3b-none-any.whl",
    "foo-1.0-py3b.py3-none-any.whl",
    "foo-1.0-py31rc1-none-any.whl",
):
    _, _, _, ref = parse_wheel_filename(fn)  # packaging accepts the name
    try:
        got = env.wheel_compatibility(fn)
        crashed = False
        detail = f"{fn} -> {got}"
    except InvalidWheelFilename as e:  # would be a clean rejection
        crashed = False
        detail = f"{fn} -> InvalidWheelFilename({e})"
    except Exception as e:  # noqa: BLE001
        crashed = True
        detail = (
            f"{fn}: packaging sees {sorted(map(str, ref))}, "
            f"wheel_compatibility raises {e!r} (py3 alone gives {baseline})"
        )
    report("F1 py-tag with letter suffix crashes", crashed, detail)

# ---------------------------------------------------------------- finding 2
# The ABI tag is cut at its first underscore, so abi3_x / none_x / cp310_x are
# taken for abi3 / none / cp310.  packaging reports them as different tags, and
# no interpreter supports them.
env = EnvSpec.from_spec("==3.10.4", "linux", "cpython")
plats = env.platform.compatible_tags
supported = set(ptags.cpython_tags((3, 10), ["cp310"], plats)) | set(
    ptags.compatible_tags((3, 10), "cp310", plats)
)
for fn in (
    "foo-1.0-cp310-abi3_x-manylinux_2_17_x86_64.whl",
    "foo-1.0-py3-none_x-any.whl",
    "foo-1.0-cp310-cp310_x-manylinux_2_17_x86_64.whl",
):
    _, _, _, ref = parse_wheel_filename(fn)
    want = bool(ref & supported)
    got = env.wheel_compatibility(fn)
    report(
        "F2 ABI tag truncated at '_'",
        (got is not None) != want,
        f"{fn}: packaging tags {sorted(map(str, ref))} supported={want}, "
        f"wheel_compatibility -> {got}",
    )

# ---------------------------------------------------------------- finding 3
# (borderline) platform strings named in the Platform.parse docstring itself.
try:
    same = Platform.parse("windows") == Platform.parse("win_amd64")
    p = Platform.parse("win_amd64")
    detail = (
        f"parse('windows') == parse('win_amd64') is {same}; parse('win_amd64') = {p!r}, "
        f"compatible_tags={p.compatible_tags}, sys_platform={p.sys_platform!r}"
    )
    report("F3a documented alias target win_amd64", not same, detail)
except Exception as e:  # noqa: BLE001
    report("F3a documented alias target win_amd64", True, repr(e))
try:
    p = Platform.parse("macosx_10_9_x86_64")
    report("F3b docstring example macosx_10_9_x86_64", False, repr(p))
except Exception as e:  # noqa: BLE001
    report("F3b docstring example macosx_10_9_x86_64", True, f"raises {e!r}")

print()
print("reproduced:", sorted(set(reproduced)) or "nothing")
sys.exit(1 if reproduced else 0)
