"""C10 (memoisation transparency) - second-round hunt.

No violation was found, so there is no finding to reproduce.  This program
re-runs a compact version of the search (targeted equal-but-differently-built
operand scenarios + a seeded random history differential) through the public
API and exits 1 only if some probe gives a different text/structure after a
history than in a cache-fresh state; otherwise it exits 0.
"""
import random
import signal
import sys

import dep_logic.markers as M
from dep_logic import utils as U
from dep_logic.markers import MarkerExpression, MarkerUnion, MultiMarker, parse_marker
from dep_logic.markers import single as S


def clear():
    M.parse_marker.cache_clear()
    S._merge_single_markers.cache_clear()
    U.cnf.cache_clear()
    U.dnf.cache_clear()


class TO(Exception):
    pass


def _alarm(*_):
    raise TO()


signal.signal(signal.SIGALRM, _alarm)


def struct(m):
    if isinstance(m, (MultiMarker, MarkerUnion)):
        return (type(m).__name__, tuple(struct(x) for x in m.markers))
    if isinstance(m, MarkerExpression):
        try:
            sp = (type(m.specifier).__name__, str(m.specifier))
        except Exception as e:  # literal without a specifier view
            sp = ("EXC", type(e).__name__)
        return ("ME", m.name, m.op, m.value, m.reversed, sp)
    if isinstance(m, (S.EqualityMarkerUnion, S.InequalityMultiMarker)):
        return (type(m).__name__, m.name, tuple(m.values))
    return (type(m).__name__,)


def ev(t):
    if t[0] == "p":
        return parse_marker(t[1])
    if t[0] == "r":
        return parse_marker(str(ev(t[1])))
    a, b = ev(t[1]), ev(t[2])
    return a & b if t[0] == "&" else a | b


def run(t, limit=3):
    signal.alarm(limit)
    try:
        m = ev(t)
        return ("ok", str(m), struct(m))
    except TO:
        return ("timeout",)
    except Exception as e:
        return ("exc", type(e).__name__, str(e)[:80])
    finally:
        signal.alarm(0)


P = lambda s: ("p", s)
AND = lambda a, b: ("&", a, b)
OR = lambda a, b: ("|", a, b)

# operands that denote the same set but are built differently
TARGETED = [
    # (history, probe)
    ([AND(P('python_version >= "3.8"'), P('python_version < "4"'))],
     AND(P('python_version ~= "3.8"'), P('python_version < "4.0"'))),
    ([AND(P('python_full_version >= "3.10"'), P('python_version >= "3.10"'))],
     AND(P('python_full_version >= "3.10.0"'), P('python_full_version < "4.0"'))),
    ([OR(P('"linux2" in sys_platform'), P('os_name == "nt"'))],
     OR(P('sys_platform in "linux2"'), P('os_name == "nt"'))),
    ([OR(P('os_name == "b" or os_name == "a"'), P('sys_platform == "x" and os_name != "c"'))],
     OR(P('os_name == "a" or os_name == "b"'), P('sys_platform == "x" and os_name != "c"'))),
    ([AND(P('"3.10" <= python_version'), P('python_full_version < "3.12"'))],
     AND(P('python_version >= "3.10"'), P('python_full_version < "3.12"'))),
    ([("r", AND(P('python_version >= "3.8"'), P('python_full_version < "3.10.0"')))],
     AND(P('python_full_version >= "3.8"'), P('python_full_version < "3.10"'))),
]


def atoms():
    out = []
    for n, vs in (("python_version", ["3.8", "3.8.0", "3.10", "3.10.0", "3", "4", "4.0", "3.8.1", "3.8.*"]),
                  ("python_full_version", ["3.8", "3.8.0", "3.8.1", "3.10", "3.10.0", "4", "4.0.0", "3.8.*"])):
        for v in vs:
            for op in ["==", "!=", ">=", "<=", ">", "<", "~="]:
                if op == "~=" and "." not in v or "*" in v and op not in ("==", "!="):
                    continue
                out.append(f'{n} {op} "{v}"')
                if op != "~=" and "*" not in v:
                    out.append(f'"{v}" {op} {n}')
    out += ['python_version in "3.7, 3.8"', 'python_version not in "3.8 3.9"']
    for n in ["os_name", "sys_platform"]:
        for v in ["nt", "posix", "lin"]:
            out += [f'{n} == "{v}"', f'{n} != "{v}"', f'"{v}" == {n}', f'{n} in "{v}"',
                    f'"{v}" in {n}', f'"{v}" not in {n}', f'{n} not in "{v}"']
    for v in ["a", "b", "a_b"]:
        out += [f'extra == "{v}"', f'extra != "{v}"', f'"{v}" == extra', f'"{v}" in extras']
    for v in ["5.4", "5.4.0", "5.4.0-generic"]:
        out += [f'platform_release >= "{v}"', f'platform_release == "{v}"', f'platform_release != "{v}"']
    return out


def main():
    bad = 0
    for history, probe in TARGETED:
        clear()
        fresh = run(probe)
        clear()
        for h in history:
            run(h)
        warm = run(probe)
        if fresh != warm:
            bad += 1
            print("HISTORY-DEPENDENT:", probe, "\n  fresh:", fresh[:2], "\n  warm: ", warm[:2])

    r = random.Random(20261004)
    pool_all = atoms()

    def rand_str(pool, depth):
        if depth >= 2 or r.random() < 0.45:
            return r.choice(pool)
        parts = [rand_str(pool, depth + 1) for _ in range(r.choice([2, 2, 3]))]
        j = r.choice([" and ", " or "])
        return j.join(f"({p})" if (" and " in p or " or " in p) else p for p in parts)

    def rand_tree(pool, depth=0):
        x = r.random()
        if depth >= 2 or x < 0.35:
            return ("p", rand_str(pool, 1))
        if x < 0.45:
            return ("r", rand_tree(pool, depth + 1))
        return (r.choice("&|"), rand_tree(pool, depth + 1), rand_tree(pool, depth + 1))

    probes = 0
    for _ in range(40):
        pool = r.sample(pool_all, 12)
        trees = [rand_tree(pool) for _ in range(30)]
        base = []
        for t in trees:
            clear()
            base.append(run(t))
        for _rep in range(2):
            order = list(range(len(trees)))
            r.shuffle(order)
            clear()
            for i in order:
                res = run(trees[i])
                probes += 1
                if res != base[i] and "timeout" not in (res[0], base[i][0]):
                    bad += 1
                    print("HISTORY-DEPENDENT:", trees[i], "\n  fresh:", base[i][:2], "\n  warm: ", res[:2])
    print(f"targeted scenarios: {len(TARGETED)}, random probes: {probes}, history-dependent results: {bad}")
    return 1 if bad else 0


if __name__ == "__main__":
    sys.exit(main())
