"""Reproduces the C15 (marker results are in normal form) findings through the public API.

Run:  PYTHONPATH=<checkout>/src /venv/bin/python demo.py
Exit status 1 if at least one finding reproduces, 0 otherwise.
"""

from __future__ import annotations

import itertools
import sys

from dep_logic.markers import MarkerUnion, MultiMarker, parse_marker
from dep_logic.markers.single import (
    EqualityMarkerUnion,
    InequalityMultiMarker,
    MarkerExpression,
)

P = parse_marker


def conj_set(m):
    """Order-insensitive view of a marker (what the marker *is*, not how it is written)."""
    if isinstance(m, (MultiMarker, MarkerUnion)):
        return (type(m).__name__, frozenset(conj_set(c) for c in m.markers))
    if isinstance(m, (EqualityMarkerUnion, InequalityMultiMarker)):
        return (type(m).__name__, m.name, frozenset(m.values))
    return m


def same_truth_table(m1, m2, names_values):
    names = sorted(names_values)
    for combo in itertools.product(*(names_values[n] for n in names)):
        env = dict(zip(names, combo))
        if m1.evaluate(env) != m2.evaluate(env):
            return False
    return True


reproduced = []

# --------------------------------------------------------------------------------------
# F1  union() hands back the raw, un-normalised MarkerUnion(*operands) candidate
# --------------------------------------------------------------------------------------
# F1a: two `==` atoms on the same variable are left as separate children (every other
#      route groups them into one atom group); the result is not equal to the marker
#      parsed from its own text although both render identically.
A = P('sys_platform == "a" and os_name != "a" or sys_platform == "b" or implementation_name == "a"')
o = P('implementation_name == "b"')
R = A | o
if isinstance(R, MarkerUnion):
    loose = [
        c for c in R.markers
        if isinstance(c, MarkerExpression) and c.name == "implementation_name" and c.op == "=="
    ]
    back = P(str(R))
    if len(loose) == 2 and str(back) == str(R) and back != R:
        print("F1a reproduced:")
        print("   A | o         =", repr(R), [type(c).__name__ for c in R.markers])
        print("   parse(str())  =", repr(back), [type(c).__name__ for c in back.markers])
        print("   same text, not equal; `implementation_name == a|b` left un-grouped")
        reproduced.append("F1a")

# F1b: the same conjunction twice (written in two orders) as children of one disjunction.
XY = P('os_name == "a" and platform_machine == "c" or os_name == "a" and implementation_name == "d"') | P(
    'sys_platform == "b" and platform_machine == "c" or sys_platform == "b" and implementation_name == "d"'
)
ef = P('platform_version == "e" and platform_system == "f"')
fe = P('platform_system == "f" and platform_version == "e"')
A1 = XY | ef
B = A1 | fe
if isinstance(B, MarkerUnion):
    views = [conj_set(c) for c in B.markers]
    if len(set(views)) < len(views) and (A1 | ef) == A1 and B != A1:
        print("F1b reproduced:")
        print("   A1            =", A1)
        print("   A1 | (f and e) =", B)
        print("   -> the conjunction `e and f` occurs twice; A1 | (e and f) == A1 but A1 | (f and e) != A1")
        reproduced.append("F1b")

# F1c: a child that is implied by its sibling survives (X and p>=3.8 next to X and p>=3.7).
A2 = XY | P('platform_version == "e" and python_version >= "3.7"')
B2 = A2 | P('platform_version == "e" and python_version >= "3.8"')
if isinstance(B2, MarkerUnion) and len(B2.markers) == len(A2.markers) + 1 and B2 != A2:
    print("F1c reproduced:")
    print("   A2 | (e and python_version >= 3.8) =", B2)
    print("   expected A2 itself                 =", A2)
    reproduced.append("F1c")

# --------------------------------------------------------------------------------------
# F2  order-sensitive equality of atom groups defeats the absorption / subset rules
# --------------------------------------------------------------------------------------
m_same = P('(sys_platform == "a" or sys_platform == "b") and platform_machine == "c" or sys_platform == "a" or sys_platform == "b"')
m_swap = P('(sys_platform == "a" or sys_platform == "b") and platform_machine == "c" or sys_platform == "b" or sys_platform == "a"')
if isinstance(m_same, EqualityMarkerUnion) and isinstance(m_swap, MarkerUnion):
    absorbed = [
        c for c in m_swap.markers
        if isinstance(c, MultiMarker)
        and any(conj_set(g) == conj_set(s) for g in c.markers for s in m_swap.markers if s is not c)
    ]
    if absorbed:
        print("F2a reproduced (parse_marker):")
        print("   ... or sys_platform == a or sys_platform == b  ->", repr(m_same))
        print("   ... or sys_platform == b or sys_platform == a  ->", repr(m_swap))
        print("   -> `(G and p) or G` is not absorbed when G is written in the other order")
        reproduced.append("F2a")

A3 = P('sys_platform == "a" and platform_machine == "a" or sys_platform == "b" or python_version < "3.7"')
o3 = P('sys_platform == "a" or python_version < "3.8"')
r1, r2 = A3 | o3, o3 | A3
envs = {
    "sys_platform": ["a", "b", "z"],
    "platform_machine": ["a", "z"],
    "python_version": ["3.6", "3.7", "3.8"],
}
if (
    isinstance(r1, MarkerUnion)
    and isinstance(r2, MarkerUnion)
    and any(isinstance(c, MultiMarker) for c in r1.markers)
    and not any(isinstance(c, MultiMarker) for c in r2.markers)
    and same_truth_table(r1, r2, envs)
):
    print("F2b reproduced (operator |):")
    print("   A | o =", r1)
    print("   o | A =", r2)
    print("   -> A | o keeps the child `(sys_platform == a or == b) and platform_machine == a`,")
    print("      which is implied by its own sibling group `sys_platform == b or sys_platform == a`")
    reproduced.append("F2b")

# --------------------------------------------------------------------------------------
# F3  (borderline) the python_version/python_full_version merge computes empty/universal
#     but returns the operand atom instead of EmptyMarker / AnyMarker
# --------------------------------------------------------------------------------------
e = P('python_version == "3.7.1"') & P('python_full_version >= "3"')
u = P('python_version != "3.7.1"') | P('python_full_version >= "3"')
ref_e = P('python_version >= "3.8"') & P('python_full_version < "3"')
ref_u = P('python_version < "3.8"') | P('python_full_version >= "3"')
if (
    ref_e.is_empty()
    and ref_u.is_any()
    and isinstance(e, MarkerExpression)
    and isinstance(u, MarkerExpression)
    and not e.is_empty()
    and not u.is_any()
):
    print("F3 reproduced (borderline):")
    print('   python_version == "3.7.1" and python_full_version >= "3"  ->', repr(e), "is_empty:", e.is_empty())
    print('   python_version != "3.7.1" or  python_full_version >= "3"  ->', repr(u), "is_any:", u.is_any())
    print("   (the other operand was dropped, which is only valid because the merge is empty / universal)")
    reproduced.append("F3")

print("reproduced:", reproduced)
sys.exit(1 if reproduced else 0)
