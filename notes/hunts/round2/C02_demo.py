"""Reproduces the C02 findings through the public API.

Run as:  PYTHONPATH=<checkout>/src /venv/bin/python demo.py
Exit status 1 if at least one finding reproduces, 0 otherwise.
"""
from __future__ import annotations

import sys

from dep_logic.markers import parse_marker

try:  # reference verdicts are informational only
    from packaging.markers import Marker as _RefMarker
except Exception:  # pragma: no cover
    _RefMarker = None


def env(full: str) -> dict[str, str]:
    return {
        "python_full_version": full,
        "python_version": ".".join(full.split(".")[:2]),
    }


def build(expr):
    """expr is an atom string or a tuple (op, lhs, rhs) combined with & / |."""
    if isinstance(expr, str):
        return parse_marker(expr)
    op, lhs, rhs = expr
    a, b = build(lhs), build(rhs)
    return (a & b) if op == "and" else (a | b)


def truth(expr, e) -> bool:
    """Truth value demanded by the property: atoms evaluated one by one."""
    if isinstance(expr, str):
        return parse_marker(expr).evaluate(e)
    op, lhs, rhs = expr
    x, y = truth(lhs, e), truth(rhs, e)
    return (x and y) if op == "and" else (x or y)


def text(expr) -> str:
    if isinstance(expr, str):
        return expr
    op, lhs, rhs = expr
    return f"({text(lhs)}) {op} ({text(rhs)})"


CASES = [
    # (label, expression, python_full_version of the witness environment)
    (
        "1a  python_version ==X.Y.Z.* (wildcard, >2 segments) & python_full_version",
        ("and", 'python_version == "3.8.0.*"', 'python_full_version >= "3.8.1"'),
        "3.8.5",
    ),
    (
        "1a' python_version !=X.Y.Z.* & python_full_version",
        ("and", 'python_version != "3.8.1.*"', 'python_full_version != "3.8.1"'),
        "3.8.1",
    ),
    (
        "1b  no wildcard in the input: the library itself renders !=3.8.0.*",
        (
            "or",
            ("or", 'python_version < "3.8"', 'python_version >= "3.8.1.0"'),
            'python_full_version == "3.8.1"',
        ),
        "3.8.1",
    ),
    (
        "1c  (borderline) in-list item with three segments -> false is_any()",
        ("or", 'python_version not in "3.8.0"', 'python_full_version == "3.8.0"'),
        "3.8.5",
    ),
    (
        "1c' (borderline) in-list item with three segments -> lost interpreters",
        ("and", 'python_version in "3.8.0, 3.9.0"', 'python_full_version >= "3.8.1"'),
        "3.8.5",
    ),
    (
        "1d  (borderline) three-segment literal that is not all digits",
        ("or", 'python_version > "3.8.post1"', 'python_full_version >= "3.8.1"'),
        "3.8.5",
    ),
]


def main() -> int:
    reproduced = 0
    for label, expr, full in CASES:
        e = env(full)
        try:
            result = build(expr)
            got = result.evaluate(e)
        except Exception as exc:  # a crash is not what these cases are about
            print(f"[error] {label}: {type(exc).__name__}: {exc}")
            continue
        want = truth(expr, e)
        ref = None
        if _RefMarker is not None:
            try:
                ref = _RefMarker(text(expr)).evaluate(e)
            except Exception:
                ref = None
        flags = []
        if result.is_empty():
            flags.append("is_empty()")
        if result.is_any():
            flags.append("is_any()")
        status = "REPRODUCED" if got != want else "ok"
        if got != want:
            reproduced += 1
        print(f"[{status}] {label}")
        print(f"    input   : {text(expr)}")
        print(f"    result  : {result!r} {' '.join(flags)}")
        print(
            f"    env python_full_version={full}: result evaluates {got}, "
            f"operands demand {want}, packaging says {ref}"
        )
    print(f"{reproduced} of {len(CASES)} cases reproduce")
    return 1 if reproduced else 0


if __name__ == "__main__":
    sys.exit(main())
