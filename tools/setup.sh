#!/bin/sh
# Offline setup: make sure hypothesis is importable by /venv's python and atheris sits in /verif/.deps.
set -e
W=/opt/veriftools/wheels
/venv/bin/python -c "import hypothesis" 2>/dev/null || /venv/bin/pip install --no-index --find-links $W hypothesis
if ! PYTHONPATH=/verif/.deps /venv/bin/python -c "import atheris" 2>/dev/null; then
  /venv/bin/pip install --no-index --find-links $W --target /verif/.deps atheris >/dev/null 2>&1 || echo "atheris not installable: fuzz layers will be skipped"
fi
mkdir -p /verif/evidence /verif/replays
echo setup ok
