#!/venv/bin/python
"""Regenerates /verif/MANIFEST.json from the table below (keeps it schema-valid)."""

import json
import os

VERIF = os.path.dirname(os.path.dirname(os.path.abspath(__file__)))
PY = "/venv/bin/python"

# id -> (technique, level text, level note, design ref)
CHECKS = {
    "C01": (
        "exhaustive small-scope enumeration + Hypothesis expression trees against an order-cell reference model",
        "All ordered pairs of canonical interval sets over <=4 (quick) / <=5 (thorough) distinct bounds, for 4 bound-shape assignments and both spellings of the universal set, are enumerated completely and every &, |, ~ result is compared cell-by-cell with set intersection/union/complement; Hypothesis adds expression trees over parsed texts and cell-constructed operands with up to 6 bounds of arbitrary PEP 440 shape. Complete for every order type within the scope, sampling beyond it.",
        "Trusts packaging.version.Version ordering; membership read structurally (interval semantics) as the property states.",
        "DESIGN.md §5 C01",
    ),
}

NOT_APPLICABLE = {}


def main():
    props = [json.loads(l) for l in open(os.path.join(VERIF, "properties.jsonl"))]
    ids = [p["id"] for p in props]
    checks = []
    for pid in ids:
        if pid not in CHECKS:
            continue
        tech, text, note, ref = CHECKS[pid]
        checks.append(
            {
                "property_id": pid,
                "quick_cmd": f"{PY} -m vpcheck {pid} --tier quick",
                "thorough_cmd": f"{PY} -m vpcheck {pid} --tier thorough",
                "evidence_file": f"/verif/evidence/{pid}.json",
                "replay_cmd_template": f"{PY} -m vpcheck {pid} --replay {{path}}",
                "engine": "vpcheck",
                "level_claimed": {"category": "exploration", "text": text, "design_ref": ref},
                "level_note": note,
                "technique": tech,
            }
        )
    na = [
        {"property_id": pid, "reason": NOT_APPLICABLE.get(pid, "check not built yet (work in progress); see DESIGN.md")}
        for pid in ids
        if pid not in CHECKS
    ]
    manifest = {
        "version": 1,
        "setup_cmd": "sh /verif/tools/setup.sh",
        "hooks": {
            "guard": "DEP_LOGIC_VERIF",
            "enable": "no source hooks are needed: checks import /repo/src directly (pure Python) and observe public API only",
            "baseline_off_cmd": "cd /repo && /venv/bin/python -m pytest -ra -q -p no:cacheprovider --timeout=900 --continue-on-collection-errors",
            "source_commits": [],
            "add_only": True,
        },
        "engines": [
            {
                "name": "vpcheck",
                "path": "/verif/vpcheck",
                "serves_properties": [c["property_id"] for c in checks],
                "kind_free_text": "Python package: Hypothesis strategies, exhaustive small-scope enumerators, reference oracles (order-cell model, shadow AST + packaging, PEP tag rules), 16-way sharding, bucketed failures, ddmin shrinking, replay files",
            }
        ],
        "checks": checks,
        "not_applicable": na,
        "notes": "All checks: exit 0 held / 1 VIOLATION line / 2 harness error. VERIF_SEED seeds Hypothesis shards; exhaustive layers ignore it. Known findings: /verif/known_findings.json.",
    }
    with open(os.path.join(VERIF, "MANIFEST.json"), "w") as f:
        json.dump(manifest, f, indent=1)
    try:
        import jsonschema

        jsonschema.validate(manifest, json.load(open("/root/.vp/MANIFEST.schema.json")))
        print("MANIFEST.json valid;", len(checks), "checks;", len(na), "not claimed")
    except ImportError:
        print("MANIFEST.json written (jsonschema not available to validate)")


if __name__ == "__main__":
    main()
