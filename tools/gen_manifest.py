#!/venv/bin/python
"""Regenerates /verif/MANIFEST.json from the table below (keeps it schema-valid)."""

import json
import os

VERIF = os.path.dirname(os.path.dirname(os.path.abspath(__file__)))
PY = "/venv/bin/python"

# id -> (technique, level text, level note, design ref)
CHECKS = {
    "C01": (
        "exhaustive small-scope enumeration + Hypothesis expression trees against an order-cell reference model",
        "All ordered pairs of canonical interval sets over <=4 (quick) / <=5 (thorough) distinct bounds, for 5 bound-shape assignments (one with the release 0 as a bound) and both spellings of the universal set, are enumerated completely and every &, |, ~ result is compared cell-by-cell with set intersection/union/complement; Hypothesis adds expression trees over parsed texts and cell-constructed operands with up to 6 bounds of arbitrary PEP 440 shape. Complete for every order type within the scope, sampling beyond it.",
        "Trusts packaging.version.Version ordering; membership read structurally (interval semantics) as the property states.",
        "DESIGN.md §5 C01",
    ),
    "C02": (
        "exhaustive atom pair/triple tables + Hypothesis operand expressions against a shadow AST (packaging for atoms) on an environment grid",
        "Complete tables of ordered pairs of all python_version/python_full_version atoms (7 operators, wildcards, in/not in lists, both operand orders, one-, two- and three-segment, X.Y.Z.* wildcard, v-/epoch-prefixed, pre- and post-release literals), pairs and triples on one string variable, every pair of ==/!= groups on one variable, on extra (set-valued) and on platform_release (incl. non-version literals), wide DNF/CNF markers against the neutral/absorbing elements, the consensus shape (not x and P)|(x and Q) and its dual, disjunctions sharing a child, every case evaluated on its whole value grid; Hypothesis adds parse results of nested and/or trees (free, variable-related, shared-factor and wide shapes), closure under & and |, Empty/Any operands. Checked: the relation as stated (result vs its operands), the independent reference, and is_empty()/is_any().",
        "Atom truth from packaging 26.3; version variables: grid contains every critical value and a point in every gap (exact), string variables: relation-closed sample. M4 rows and the S4a-through-markers case class (known findings) excluded and counted. A per-case SIGALRM cap counts as inconclusive.",
        "DESIGN.md §5 C02",
    ),
    "C03": (
        "exhaustive single-atom grid + Hypothesis marker texts, differential against packaging.Marker.evaluate",
        "Every single atom of the pools on its value grid (the atom evaluator incl. reversed operands, PEP 685 normalisation, set-valued extras/dependency_groups in lock_file context), every ordered pair of Python-version atoms / string atoms, every pair of ==/!= groups and the factored / shared-child shapes written as one text, each text also without an environment, with an empty and with a partial one (default environment and context defaults), and generated texts with nested and/or, parentheses, quote/blank variation and legacy dotted names, compared row by row with the installed packaging.",
        "packaging 26.3 is the reference as the property prescribes; rows on which it raises are discarded; M4 rows excluded for multi-atom texts.",
        "DESIGN.md §5 C03",
    ),
    "C04": (
        "exhaustive cell-pair trees + Hypothesis expression trees, differential against packaging.SpecifierSet on final-release candidates",
        "Every ordered pair of sets over three bounds, written as text, combined and then complemented / intersected once more (16 000 pairs x 3 tree shapes; thorough: 3 bound triples); random &,|,~ trees over PEP 440 clause sets (all operators incl. ~=, wildcards, epochs, alternative spellings) are evaluated by dep-logic and, leaf-wise, by packaging; `in` and contains() must equal the Boolean combination on 30-80 final releases chosen around every bound. Sampling of an infinite space; candidates are placed where the two can differ (each bound, +-1 on its last two segments, shorter/longer, epoch variants).",
        "Trusts packaging's SpecifierSet.contains for final releases. S4a (known finding) class excluded and counted.",
        "DESIGN.md §5 C04",
    ),
    "C05": (
        "exhaustive small-scope enumeration + Hypothesis, structural validator and ==/cell-set equivalence",
        "Same enumeration as C01 (all ordered pairs over <=4/<=5 bounds x 5 assignments x 2 universal spellings): every result must be structurally canonical, == (both directions) to the canonical object of the set its operands define, != a neighbouring set, with exact is_empty()/is_any(); Hypothesis trees compare all node results pairwise (== <=> same cells); a twin-spelling layer demands that texts denoting one set by definition (~=V.N / >=V.N,==V.*; ==V / >=V,<=V; !=V, <V, <=V, !=X.* / complements) parse to == objects and that parse_version_specifier and from_specifierset agree (every third comma-set leaf of all specifier checks enters through from_specifierset).",
        "Canonical shape taken literally from the property statement; Version ordering trusted.",
        "DESIGN.md §5 C05",
    ),
    "C06": (
        "exhaustive bound-pair pool + Hypothesis closure results, round-trip oracle on the order-cell model",
        "Every ordered pair from a pool of 110 shaped versions (padding, pre/post/dev, epochs) x inclusivity as range and 2-range union, half-lines and points; an adjacent-release family (right bound = left release bumped by one at any position, both written with 0-2 trailing zeros, suffix and epoch variants; ~160 000 objects) aimed at the ~=, ==X.*, !=X.* heuristics; plus random expression-tree results: str() must not raise, must re-parse, and the re-parsed object must have the same cells and compare ==.",
        "Known finding S4a (pinned by a repository test) excluded by a narrow structural predicate and counted.",
        "DESIGN.md §5 C06",
    ),
    "C07": (
        "exhaustive atom tables + Hypothesis operand expressions; text round-trip oracle (dep-logic re-parse + packaging acceptance + truth-table equality)",
        "Every marker produced by parse/&/|/only/exclude/without_extras on C02's operand space is rendered; the text must be accepted by parse_marker and by packaging, must not contain <empty>, and must evaluate like the original on the environment grid; Empty and Any must render as <empty> / '' and parse back to themselves.",
        "Truth tables on the C02 grid (extra as sets); M4 rows excluded and counted.",
        "DESIGN.md §5 C07",
    ),
    "C08": (
        "exhaustive tag-universe grid + Hypothesis specs/compressed tag sets against a rule predicate over a packaging-decided interpreter grid",
        "48 requires_python shapes (incl. upper-bound-first spellings, unions of two and of three or more ranges one branch of which ends exactly on a tag's X.Y) x 5 implementation/gil settings x every single (python, abi) tag of the stated universe (170 python tags x ~14 ABIs incl. flag combinations m/d/u/t/td, prefix look-alikes such as cp31/cp312, pypy/pyston ABIs) decided exhaustively, plus generated requires_python texts with compressed tag sets; verdict and the first three score components must equal the statement's rule evaluated on the dense interpreter grid X.Y.Z (Z<=40), and wheel_compatibility() on the corresponding file name (with and without a build tag) must return what compatibility() returns.",
        "Which interpreters requires_python admits is decided by packaging.SpecifierSet, not by dep-logic; specs whose answer depends on pre-releases of the next series (interval reading vs. final interpreters) and empty specs refused by from_spec are skipped and counted.",
        "DESIGN.md §5 C08",
    ),
    "C09": (
        "complete enumeration of the platform grid against a PEP 600/656/macOS rule oracle cross-checked with packaging.tags",
        "All 460 platforms of the quantifier's grid: tag list equals the rule oracle, itself cross-checked against the installed packaging.tags generators (as a list for manylinux/macOS, as a set for musllinux/windows), no duplicates, EnvSpec platform score strictly falls along the list with `any` last, a wheel with several platform tags scores like its best tag in any order, every tag gives the same result through wheel_compatibility() on a file name with and without build tag, foreign tags rejected. Exhaustive, so quick = thorough.",
        "fat* formats stripped; linux_<arch> optional on musllinux; musllinux_1_0 (packaging only) ignored in the cross-check; arm64 on macOS 10.x excluded; rank of linux_<arch> on manylinux is known finding T5 (excluded, counted).",
        "DESIGN.md §5 C09",
    ),
    "C10": (
        "Hypothesis rule-based state machine over parse/&/|/reparse/variant histories; warm-vs-cold differential oracle, fresh-interpreter cross-check",
        "Three layers. (1) Rule-based state machine: histories of up to 30 (quick) / 50 (thorough) operations parse / & / | / reparse / variant / permuted over per-history atom families (37 base atoms x 4 spellings incl. epoch literals and <V / >V pairs, chosen so that cache keys collide); every step is a probe whose warm observation (text, class, truth table, is_any/is_empty) must equal - and whose warm result object must be == and hash like - the cold recomputation of its recipe with every cache found in dep_logic (module level and on methods) cleared and fresh objects; an operation that raises is an observation like any other (raises when run first, returns a marker after history = violation). (2) Exhaustive small scope: for each atom family every history of ONE binary operation x every probe `x op y` (in both spellings of the literals), `(x op y) op z`. (3) Fresh interpreters: ~2 600 single parse_marker calls per family evaluated in new processes that differ only in PYTHONHASHSEED must agree; sample probes of (1) are also recomputed in a new process.",
        "Cold = all functools caches found in dep_logic cleared; single thread; histories bounded; layers (1)-(2) run under PYTHONHASHSEED=0.",
        "DESIGN.md §5 C10",
    ),
    "C11": (
        "complete enumeration of Python-version atoms and simple specifiers x interpreter grid; three-way agreement (specifier view / evaluate / packaging)",
        "All 330 atoms (2 variables x 9 literals x 7 operators x 2 operand orders, wildcards, 7 in/not-in lists) and ~1 400 from_specifier inputs (simple specifiers incl. pre-/post-/dev-release operands, 5 two-bound shapes over all pairs of 15 Python-like versions, pre-release lower bounds under 7 upper bounds) x 2 names on 315 interpreters: value in atom.specifier <=> atom.evaluate <=> packaging; from_specifier result is None or true exactly where packaging's SpecifierSet admits, and the specifier object's own membership agrees with packaging on every interpreter.",
        "M4 rows excluded (known finding).",
        "DESIGN.md §5 C11",
    ),
    "C12": (
        "exhaustive guarded-DNF tables + Hypothesis operand expressions x variable subsets + fixed nested shapes x all subsets; structural (mentioned variables) and truth-table implication oracle",
        "For a, b, a&b, a|b, a fixed set of nested texts and every marker (x1 and g1) or (x2 and g2) or x3 / (x1 or g1) and (x2 or g2) with x1..x3 atoms on one variable family kept apart by guards on another variable (so that only()/exclude() unite them for the first time) and the factored pairs (P and X1)|(P and X2) with X's variable excluded or kept: only(N) mentions no variable outside N at any depth, is implied by m on every row, equals m when N covers m's variables; exclude(x)/without_extras never mention x and are the identity in meaning when x is not mentioned.",
        "Nothing is asserted about exclude() of a mentioned variable beyond absence, as in the statement.",
        "DESIGN.md §5 C12",
    ),
    "C13": (
        "exhaustive fixed pools of coincidence objects + Hypothesis pools, relational oracle (reflexive/symmetric/transitive/hash/interchangeable)",
        "All pairs and triples of a fixed pool of ~70 specifier objects and ~70 marker objects built to contain cross-class equalities, cached-field variants and mirrored atoms, plus generated pools with differently-built copies; equal objects must hash alike, collapse in sets, give results of the same meaning as operands and (specifiers) admit the same final releases through `in`/contains() and render to texts that denote one set.",
        "Meaning of results: order-cell model (specifiers) / truth table on the environment grid (markers). Operands are drawn from the same family as the compared pair.",
        "DESIGN.md §5 C13",
    ),
    "C14": (
        "exhaustive triples (small scope) + Hypothesis triples; algebraic laws, no reference model",
        "19 laws on every ordered triple of canonical sets over 2 bounds (x5 assignments x2 universal spellings) and a seed-chosen 1/8 slice of the 2M triples over 3 bounds in quick, all of them in thorough; Hypothesis triples with arbitrary shapes; marker laws by truth-table equality on every ordered triple of single atoms of one variable family (string, extra, Python version, platform_release tables), on every triple of ==/!= groups and atoms of one string variable, and on generated triples.",
        "Laws are judged with the library's own == (specifiers) / evaluate() (markers).",
        "DESIGN.md §5 C14",
    ),
    "C15": (
        "exhaustive atom tables + Hypothesis operand expressions (incl. Empty/Any operands); recursive structural validator",
        "Every marker produced by parse/&/|/only/exclude/without_extras is walked: Empty | Any | atom/group | compound with >=2 pairwise distinct children, none Empty/Any/same kind; plus rendering has no <empty>/dangling operator and is_empty()/is_any() only on the special classes.",
        "Atom groups count as single atoms.",
        "DESIGN.md §5 C15",
    ),
    "C16": (
        "exhaustive pairs over a configuration grid + Hypothesis requires_python pairs; relational (monotonicity / nesting / compare laws) oracle",
        "3840 EnvSpecs (30 requires_python x 32 platforms x 4 implementations): all 14.7M ordered pairs for the compare() relations, all same-(platform, implementation) pairs for wheel monotonicity over 176 wheels, all same-family platform release pairs for tag nesting; 20 epoch-bearing requires_python texts x themselves (monotonicity decided on an epoch 0/1/2 probe grid); generated requires_python pairs on top. Pairs of Linux platforms across a major bump are the known finding T7 and are skipped and counted.",
        "Subset of requires_python decided with packaging on final, sub-micro and pre-release probe points; documented platform families only.",
        "DESIGN.md §5 C16",
    ),
    "C17": (
        "Hypothesis grammar + near-miss mutation strings, differential against packaging.SpecifierSet; atheris coverage-guided bytes in thorough",
        "Valid sets with every spelling the reference accepts, one-edit near misses, ||-joins and <empty>, every set over three bounds written as ||-alternatives in every order, every ordered pair and triple of (overlapping, touching) single ranges as alternatives, and the same pairs with an invalid alternative before, between or after them: acceptance must coincide with packaging, rejection must be dep-logic's InvalidSpecifier only, from_specifierset must not raise.",
        "+local operands, empty || alternatives and || with === are outside the claim and skipped (counted).",
        "DESIGN.md §5 C17",
    ),
    "C18": (
        "Hypothesis PEP 427 grammar (valid + wrong extension/part count), differential against packaging.utils.parse_wheel_filename; exhaustive platform-name families; atheris in thorough",
        "Generated wheel names with build tags, compressed tag sets and underscore-laden platform tags: tag sets must equal packaging's, and under three target specs the wheel must be judged exactly like the best of its single-tag expansions (whatever the written order of the compressed sets); wrong extension / part count must raise InvalidWheelFilename; every choices() family with multi-digit X_Y, aliases and str() round trip of the whole C09 grid.",
        "Names packaging rejects for other reasons are outside the claim.",
        "DESIGN.md §5 C18",
    ),
    "C19": (
        "complete enumeration of (operator, literal) pairs over a relation-closed pool + Hypothesis literals, 4-line reference membership",
        "All 68x68 ordered specifier pairs (4 operators x 17 literals) x {&,|} and every ~, each on 36 candidate strings: result raises NotImplementedError or has exactly the conjunction/disjunction/complement membership.",
        "Pool is closed under equal/substring/superstring/disjoint/empty and contains letter-case variants and list-like literals; other literals sampled by Hypothesis.",
        "DESIGN.md §5 C19",
    ),
}

NOT_APPLICABLE = {}


def main():
    props = [json.loads(l) for l in open(os.path.join(VERIF, "properties.jsonl"))]
    ids = [p["id"] for p in props]
    checks = []
    for pid in ids:
        if pid not in CHECKS:
            continue
        tech, text, note, ref = CHECKS[pid]
        checks.append(
            {
                "property_id": pid,
                "quick_cmd": f"{PY} -m vpcheck {pid} --tier quick",
                "thorough_cmd": f"{PY} -m vpcheck {pid} --tier thorough",
                "evidence_file": f"/verif/evidence/{pid}.json",
                "replay_cmd_template": f"{PY} -m vpcheck {pid} --replay {{path}}",
                "engine": "vpcheck",
                "level_claimed": {"category": "exploration", "text": text, "design_ref": ref},
                "level_note": note,
                "technique": tech,
            }
        )
    na = [
        {"property_id": pid, "reason": NOT_APPLICABLE.get(pid, "check not built yet (work in progress); see DESIGN.md")}
        for pid in ids
        if pid not in CHECKS
    ]
    manifest = {
        "version": 1,
        "setup_cmd": "sh /verif/tools/setup.sh",
        "hooks": {
            "guard": "DEP_LOGIC_VERIF",
            "enable": "no source hooks are needed: checks import /repo/src directly (pure Python) and observe public API only",
            "baseline_off_cmd": "cd /repo && /venv/bin/python -m pytest -ra -q -p no:cacheprovider --timeout=900 --continue-on-collection-errors",
            "source_commits": [],
            "add_only": True,
        },
        "engines": [
            {
                "name": "vpcheck",
                "path": "/verif/vpcheck",
                "serves_properties": [c["property_id"] for c in checks],
                "kind_free_text": "Python package: Hypothesis strategies, exhaustive small-scope enumerators, reference oracles (order-cell model, shadow AST + packaging, PEP tag rules), 16-way sharding, bucketed failures, ddmin shrinking, replay files",
            }
        ],
        "checks": checks,
        "not_applicable": na,
        "notes": "All checks: exit 0 held / 1 VIOLATION line / 2 harness error. VERIF_SEED seeds Hypothesis shards; exhaustive layers ignore it. Known findings: /verif/known_findings.json.",
    }
    with open(os.path.join(VERIF, "MANIFEST.json"), "w") as f:
        json.dump(manifest, f, indent=1)
    try:
        import jsonschema

        jsonschema.validate(manifest, json.load(open("/root/.vp/MANIFEST.schema.json")))
        print("MANIFEST.json valid;", len(checks), "checks;", len(na), "not claimed")
    except ImportError:
        print("MANIFEST.json written (jsonschema not available to validate)")


if __name__ == "__main__":
    main()
