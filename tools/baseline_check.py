#!/venv/bin/python
"""Runs the repository's test-suite (guard off: there are no hooks) and compares with BASELINE.json's stable_pass."""
import json, os, subprocess, sys, tempfile
import xml.etree.ElementTree as ET

repo = sys.argv[1] if len(sys.argv) > 1 else "/repo"
base = json.load(open("/root/.vp/BASELINE.json"))
want = set(base["stable_pass"])
with tempfile.TemporaryDirectory() as d:
    x = os.path.join(d, "j.xml")
    env = dict(os.environ)
    env.pop("DEP_LOGIC_VERIF", None)
    if repo != "/repo":
        env["PYTHONPATH"] = os.path.join(repo, "src")
    p = subprocess.run(["/venv/bin/python", "-m", "pytest", "-q", "-p", "no:cacheprovider", "--timeout=900", "--continue-on-collection-errors", "-x" if False else "-q", f"--junitxml={x}"], cwd=repo, env=env, capture_output=True, text=True)
    tree = ET.parse(x)
passed = set()
for tc in tree.iter("testcase"):
    if not any(ch.tag in ("failure", "error", "skipped") for ch in tc):
        passed.add(f"{tc.get('classname')}::{tc.get('name')}")
missing = want - passed
print(p.stdout.strip().splitlines()[-1])
print(f"stable_pass={len(want)} passed_now={len(passed)} missing={len(missing)}")
for m in sorted(missing)[:20]:
    print("  NOT PASSING:", m)
sys.exit(1 if missing else 0)
