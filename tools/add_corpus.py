#!/venv/bin/python
"""add_corpus.py PROP NAME KIND CASE_JSON [NOTE] - store a shrunk input of a repaired defect as regression input."""
import json, os, sys
prop, name, kind, case = sys.argv[1:5]
note = sys.argv[5] if len(sys.argv) > 5 else ""
d = os.path.join(os.path.dirname(os.path.dirname(os.path.abspath(__file__))), "corpus", prop)
os.makedirs(d, exist_ok=True)
with open(os.path.join(d, name + ".json"), "w") as f:
    json.dump({"kind": kind, "case": json.loads(case), "note": note}, f, indent=1)
print("wrote", os.path.join(d, name + ".json"))
