"""Operand expressions over markers, evaluated twice: by dep-logic (objects) and by the shadow AST.

Expr = ["parse", Tree] | ["and", Expr, Expr] | ["or", Expr, Expr] | ["empty"] | ["any"]
"""

from __future__ import annotations

from hypothesis import strategies as st

from dep_logic.markers import AnyMarker, EmptyMarker, MarkerUnion, MultiMarker, parse_marker
from dep_logic.markers.single import EqualityMarkerUnion, InequalityMultiMarker, MarkerExpression, SingleMarker

from . import markers as M

WELL_DEFINED = ["A1", "A1", "A1", "A2", "A2r", "A3", "A3", "A3", "A3", "A4", "A5", "A5"]
WITH_LOW_WEIGHT = WELL_DEFINED * 3 + ["A1n", "A4s"]


def dep_eval(expr):
    tag = expr[0]
    if tag == "parse":
        return parse_marker(M.render(expr[1]))
    if tag == "empty":
        return EmptyMarker()
    if tag == "any":
        return AnyMarker()
    a, b = dep_eval(expr[1]), dep_eval(expr[2])
    return a & b if tag == "and" else a | b


def shadow(expr, env) -> bool:
    tag = expr[0]
    if tag == "parse":
        return M.truth(expr[1], env)
    if tag == "empty":
        return False
    if tag == "any":
        return True
    if tag == "and":
        return shadow(expr[1], env) and shadow(expr[2], env)
    return shadow(expr[1], env) or shadow(expr[2], env)


def expr_atoms(expr):
    tag = expr[0]
    if tag == "parse":
        return M.atoms_of(expr[1])
    if tag in ("empty", "any"):
        return []
    return expr_atoms(expr[1]) + expr_atoms(expr[2])


def expr_text(expr) -> str:
    tag = expr[0]
    if tag == "parse":
        return f"P[{M.render(expr[1])}]"
    if tag in ("empty", "any"):
        return tag.upper()
    return f"({expr_text(expr[1])} {'&' if tag == 'and' else '|'} {expr_text(expr[2])})"


def operand(classes=None, max_leaves=3, depth=True):
    classes = classes or WITH_LOW_WEIGHT
    leaf = st.one_of(
        M.related_tree(classes, max_leaves).map(lambda t: ["parse", t]),
        M.related_tree(classes, max_leaves).map(lambda t: ["parse", t]),
        M.related_tree(classes, max_leaves).map(lambda t: ["parse", t]),
        M.related_tree(classes, max_leaves).map(lambda t: ["parse", t]),
        M.related_tree(classes, max_leaves).map(lambda t: ["parse", t]),
        M.factored_tree(classes).map(lambda t: ["parse", t]),
        M.factored_tree(classes).map(lambda t: ["parse", t]),
        st.just(["empty"]),
        st.just(["any"]),
    )
    if not depth:
        return leaf
    return st.recursive(leaf, lambda ch: st.tuples(st.sampled_from(["and", "or"]), ch, ch).map(list), max_leaves=2)


def expr_shrinks(expr):
    tag = expr[0]
    if tag == "parse":
        for s in M.tree_shrinks(expr[1]):
            yield ["parse", s]
        return
    if tag in ("empty", "any"):
        return
    yield expr[1]
    yield expr[2]
    for i in (1, 2):
        for s in expr_shrinks(expr[i]):
            new = list(expr)
            new[i] = s
            yield new


def atom_class(a) -> str:
    fam = {"python_version": "pyv", "python_full_version": "pyfv", "platform_release": "rel", "extra": "extra", "extras": "extras", "dependency_groups": "groups"}.get(a["var"], "str")
    op = a["op"]
    if a["val"].endswith(".*"):
        kind = "wild"
    elif op in ("<", "<=", ">", ">="):
        kind = "ord"
    else:
        kind = op.replace(" ", "")
    if fam in ("pyv", "pyfv", "rel") and "." not in a["val"].replace(".*", "") and op not in ("in", "not in"):
        kind += "1seg"
    if fam == "pyv" and a["val"].replace(".*", "").count(".") >= 2 and op not in ("in", "not in"):
        kind += "3seg"
    if fam == "str" and a["val"][:1].isdigit():
        fam = "strnum"
    if fam == "pyv" and op in ("in", "not in") and "," not in a["val"] and " " in a["val"]:
        kind += "blank"
    return f"{fam}.{kind}" + (".rev" if a["rev"] else "")


def classes_of(atoms) -> str:
    return "+".join(sorted({atom_class(a) for a in atoms}))


def table(m, rows):
    return [bool(m.evaluate(e)) for e in rows]


def shape(m) -> str:
    if isinstance(m, EmptyMarker):
        return "Empty"
    if isinstance(m, AnyMarker):
        return "Any"
    if isinstance(m, MarkerExpression):
        return "Atom"
    if isinstance(m, EqualityMarkerUnion):
        return "EqGroup"
    if isinstance(m, InequalityMultiMarker):
        return "NeGroup"
    if isinstance(m, MultiMarker):
        return "Multi"
    if isinstance(m, MarkerUnion):
        return "Union"
    return type(m).__name__


def names_in(m) -> set[str]:
    if isinstance(m, (MultiMarker, MarkerUnion)):
        out = set()
        for c in m.markers:
            out |= names_in(c)
        return out
    if isinstance(m, SingleMarker):
        return {m.name}
    return set()


def normal_form_problems(m, top=True) -> list[str]:
    """C15's structural validator."""
    probs = []
    if isinstance(m, (EmptyMarker, AnyMarker)):
        if not top:
            probs.append(f"{shape(m)}-inside-compound")
        return probs
    if isinstance(m, (EqualityMarkerUnion, InequalityMultiMarker)):
        if len(m.values) == 0:  # not an atom group at all: it renders as the empty text
            probs.append(f"{shape(m)}-with-0-values")
        return probs
    if isinstance(m, SingleMarker):
        return probs
    if isinstance(m, (MultiMarker, MarkerUnion)):
        ch = list(m.markers)
        if len(ch) < 2:
            probs.append(f"{shape(m)}-with-{len(ch)}-children")
        for i, c in enumerate(ch):
            if type(c) is type(m):
                probs.append(f"{shape(m)}-nested-in-same-kind")
            if any(c == d for d in ch[:i]):
                probs.append(f"{shape(m)}-duplicate-children")
            probs += normal_form_problems(c, top=False)
        return probs
    return [f"unknown-class-{type(m).__name__}"]


# --------------------------------------------------------------------------
# the case family shared by C07 / C12 / C15: two operands, a set of variable names
ALL_VARS = sorted(M.STR_VARS) + ["python_version", "python_full_version", "platform_release", "extra"]


@st.composite
def family_case(draw, max_leaves=3):
    a = draw(operand(max_leaves=max_leaves))
    b = draw(operand(max_leaves=max_leaves))
    mentioned = sorted({x["var"] for x in expr_atoms(a) + expr_atoms(b)}) or ["os_name"]
    k = draw(st.sampled_from([1, 1, 2, 2, 3]))
    # mentioned variables plus unmentioned ones, among them names that contain / are contained in a mentioned one
    names = draw(st.lists(st.sampled_from(mentioned + ["os_name", "extra", "extras", "platform_version", "python_version"]), min_size=1, max_size=k, unique=True))
    return {"a": a, "b": b, "names": names}


def produced(case):
    """Every marker the public operations produce for a case: (label, marker, recipe).
    recipe is ("expr", Expr) when a shadow exists, else ("derived", base_label, op, args)."""
    A, B = dep_eval(case["a"]), dep_eval(case["b"])
    base = [("a", A, case["a"]), ("b", B, case["b"]), ("a&b", A & B, ["and", case["a"], case["b"]]), ("a|b", A | B, ["or", case["a"], case["b"]])]
    out = [(lab, m, ("expr", e)) for lab, m, e in base]
    names = case.get("names") or []
    for lab, m, e in base:
        if names:
            out.append((f"{lab}.only({','.join(names)})", m.only(*names), ("only", e, names)))
            out.append((f"{lab}.exclude({names[0]})", m.exclude(names[0]), ("exclude", e, names[0])))
        out.append((f"{lab}.without_extras()", m.without_extras(), ("exclude", e, "extra")))
    return out


def case_shrinks(case):
    for key in ("a", "b"):
        for s in expr_shrinks(case[key]):
            yield {**case, key: s}
    if len(case.get("names", [])) > 1:
        for i in range(len(case["names"])):
            yield {**case, "names": case["names"][:i] + case["names"][i + 1 :]}


import re as _re

_LIST_ATOM = _re.compile(r"python_version (not in|in) [\"']([^\"']*)[\"']")


def text_list_atoms(text):
    """in/not-in list atoms occurring in a rendered marker (for the M4 row predicate)."""
    return [{"var": "python_version", "op": op, "val": val, "rev": False} for op, val in _LIST_ATOM.findall(text)]


# --------------------------------------------------------------------------
# known finding S4a seen through markers: a range [lo, X.postN) with inclusive lo renders as ~=lo, so a merge of
# `V >= lo` (or ~=, or a wildcard) with `V < "X.postN"` on one version variable loses the versions X .. X.postN
_PY = ("python_version", "python_full_version")


def case_atoms(obj):
    """Every atom dict anywhere inside a case (pairs, families, texts, triples, pools)."""
    if isinstance(obj, dict):
        if {"var", "op", "val"} <= obj.keys():
            yield obj
        else:
            for v in obj.values():
                yield from case_atoms(v)
    elif isinstance(obj, (list, tuple)):
        for v in obj:
            yield from case_atoms(v)


def _s4a_below(lo_text: str, hi_text: str) -> bool:
    """The range [lo, X.postN) is only rendered lossily when it is not empty, i.e. lo < X.postN.  Anything that does
    not parse keeps the conservative answer (the pair may be the known finding)."""
    from packaging.version import InvalidVersion, Version

    try:
        return Version(lo_text[:-2] if lo_text.endswith(".*") else lo_text) < Version(hi_text)
    except InvalidVersion:
        return True


def s4a_case(case) -> bool:
    atoms = list(case_atoms(case))
    for a in atoms:
        if a["op"] == "<" and "post" in a["val"]:
            fam = _PY if a["var"] in _PY else (a["var"],)
            for b in atoms:
                if b is not a and b["var"] in fam and (b["op"] in (">=", "~=") or (b["op"] == "==" and b["val"].endswith(".*"))) and _s4a_below(b["val"], a["val"]):
                    return True
    return False
