"""Independent rule oracles for PEP 425/600/656 platform tags and wheel python/ABI compatibility,
written from the property statements (C08, C09), plus the packaging.tags cross-check."""

from __future__ import annotations

LEGACY = {5: "manylinux1", 12: "manylinux2010", 17: "manylinux2014"}
LINUX_ARCHS = ["x86_64", "aarch64", "armv7l", "ppc64le", "ppc64", "s390x", "riscv64"]


def manylinux_floor(arch: str) -> int:
    return 5 if arch in ("x86_64", "i686", "x86") else 17


def oracle_manylinux(minor: int, arch: str) -> list[str]:
    """manylinux tags newest first, each legacy alias right after its perennial twin; linux_<arch> FIRST, which is
    where packaging.tags (26.x) ranks the plain platform tag (older releases ranked it last)."""
    out = [f"linux_{arch}"]
    for k in range(minor, manylinux_floor(arch) - 1, -1):
        out.append(f"manylinux_2_{k}_{arch}")
        if k in LEGACY:
            out.append(f"{LEGACY[k]}_{arch}")
    return out


def oracle_musllinux(minor: int, arch: str) -> set[str]:
    return {f"musllinux_1_{k}_{arch}" for k in range(1, minor + 1)}


def mac_formats(arch: str) -> list[str]:
    return ["x86_64", "intel", "universal2", "universal"] if arch == "x86_64" else ["arm64", "universal2"]


def oracle_mac(major: int, minor: int, arch: str) -> list[str]:
    fm = mac_formats(arch)
    out = []
    if major == 10:
        for m in range(minor, 3, -1):
            out += [f"macosx_10_{m}_{f}" for f in fm]
    else:
        for M in range(major, 10, -1):
            out += [f"macosx_{M}_0_{f}" for f in fm]
        for m in range(16, 3, -1):
            out += [f"macosx_10_{m}_{f}" for f in (fm if arch == "x86_64" else ["universal2"])]
    return out


def nofat(tags):
    return [t for t in tags if not t.rsplit("_", 1)[-1].startswith("fat")]


# -- packaging cross-check (its glibc / musl / ELF probes stubbed) ------------------
def pk_manylinux(minor: int, arch: str) -> list[str]:
    import packaging._manylinux as ml

    saved = ml._get_glibc_version, ml._have_compatible_abi
    try:
        import sysconfig

        import packaging._musllinux as mu
        import packaging.tags as pt

        ml._get_glibc_version = lambda: ml._GLibCVersion(2, minor)
        ml._have_compatible_abi = lambda exe, archs: True
        saved_plat, saved_musl = sysconfig.get_platform, mu._get_musl_version
        sysconfig.get_platform = lambda: f"linux-{arch}"
        mu._get_musl_version = lambda exe: None
        try:
            # the whole generator, so that the position of linux_<arch> is packaging's, not mine
            return list(pt._linux_platforms(is_32bit=False))
        finally:
            sysconfig.get_platform, mu._get_musl_version = saved_plat, saved_musl
    finally:
        ml._get_glibc_version, ml._have_compatible_abi = saved


def pk_musllinux(minor: int, arch: str) -> set[str]:
    import packaging._musllinux as mu

    saved = mu._get_musl_version
    try:
        mu._get_musl_version = lambda exe: mu._MuslVersion(1, minor)
        return set(mu.platform_tags([arch]))
    finally:
        mu._get_musl_version = saved


def pk_mac(major: int, minor: int, arch: str) -> list[str]:
    import packaging.tags as pt

    return nofat(list(pt.mac_platforms((major, minor), arch)))


# -- C08: python / abi compatibility ------------------------------------------------
IMPL_SHORT = {"cpython": "cp", "pypy": "pp", "pyston": "pt"}


def python_abi_oracle(admits, impl, gil, py, abi, grid):
    """Decision from the C08 statement. admits(v) -> bool for v=(X,Y,Z) on the dense grid.
    Returns "skip" (tag outside the stated universe), None (incompatible) or (X, Y, rank)."""
    pre, ver = py[:2], py[2:]
    if not ver.isdigit() or pre not in ("cp", "py", "pp", "pt"):
        return "skip"
    X = int(ver[0])
    Y = int(ver[1:]) if len(ver) > 1 else None
    if impl is not None and pre not in (IMPL_SHORT[impl], "py"):
        return None
    abin = abi.split("_", 1)[0].replace("pypy", "pp").replace("pyston", "pt").lower()

    def exists(pred):
        return any(pred(v) and admits(v) for v in grid)

    if abin == "abi3":
        if pre != "cp" or (impl is not None and gil):
            return None
        if Y is None:
            return "skip"
        return (X, Y, 1) if exists(lambda v: (v[0], v[1]) >= (X, Y)) else None
    if abin != "none":
        # "a concrete cpXY[t] ABI must match the python tag": the tag itself plus ABI flag letters only
        # (cp31 does not match cp312)
        rest = abin[len(py) :]
        if not abin.startswith(py.lower()) or (rest and not rest.isalpha()):
            return None
        # PEP 703: the free-threading flag is the letter t among the ABI flags (cp313t, cp313td)
        if impl is not None and ("t" in rest) != gil:
            return None
        rank = 2
    else:
        rank = 0
    if Y is None:
        ok = exists(lambda v: v[0] == X)
    elif pre == "py":
        ok = exists(lambda v: v[0] == X and v[1] >= Y)
    else:
        ok = exists(lambda v: (v[0], v[1]) == (X, Y))
    return (X, Y or 0, rank) if ok else None
