"""Shared machinery: environment pinning, sharding, per-case isolation, counters,
failure bucketing, shrinking, replay / evidence writers, known findings.

Exit codes of a check: 0 held, 1 violation (with VIOLATION line), 2 harness error.
"""

from __future__ import annotations

import collections
import hashlib
import importlib
import json
import multiprocessing as mp
import os
import signal
import sys
import time
import traceback

VERIF = os.path.dirname(os.path.dirname(os.path.abspath(__file__)))
REPO = os.environ.get("VERIF_REPO", "/repo")
NPROC = int(os.environ.get("VERIF_JOBS", "16"))


KNOWN_ENABLED = True  # --no-known / reproducer runs switch the known-finding classes off


class HarnessError(Exception):
    pass


class CaseTimeout(Exception):
    pass


def pin_environment() -> None:
    """Re-exec once so that PYTHONHASHSEED=0 (dep-logic iterates sets of markers)
    and put the repository's *current working tree* first on sys.path."""
    if os.environ.get("PYTHONHASHSEED") != "0":
        env = dict(os.environ, PYTHONHASHSEED="0")
        os.execve(sys.executable, [sys.executable, "-m", "vpcheck", *sys.argv[1:]], env)
    src = os.path.join(REPO, "src")
    if not os.path.isdir(os.path.join(src, "dep_logic")):
        raise HarnessError(f"no dep_logic under {src}")
    sys.path.insert(0, src)
    import dep_logic

    if not os.path.abspath(dep_logic.__file__).startswith(os.path.abspath(src)):
        raise HarnessError(f"dep_logic imported from {dep_logic.__file__}, not {src}")
    # the pristine content of dep_logic's module-level containers is recorded before any operation has run
    global _CONTAINERS
    _CONTAINERS = _snapshot_containers()


# --------------------------------------------------------------------------
# cache reset: every functools cache found in dep_logic modules
_CACHES: list | None = None


def _find_caches() -> list:
    import pkgutil

    import dep_logic

    found = []
    seen = set()
    for mod in pkgutil.walk_packages(dep_logic.__path__, "dep_logic."):
        try:
            m = importlib.import_module(mod.name)
        except Exception:
            continue
        for v in vars(m).values():
            cands = [v]
            if isinstance(v, type) and getattr(v, "__module__", "").startswith("dep_logic"):
                # caches hung on methods / classmethods / staticmethods of dep_logic classes
                for w in vars(v).values():
                    cands.append(getattr(w, "__func__", w))
                    cands.append(getattr(w, "fget", None))
            for c in cands:
                if c is not None and callable(getattr(c, "cache_clear", None)) and id(c) not in seen:
                    seen.add(id(c))
                    found.append(c)
    return found


_CONTAINERS: list | None = None


def _snapshot_containers() -> list:
    """Module-level and class-level mutable containers of dep_logic (a hand-rolled memo is a dict, not a functools
    cache) with a copy of their import-time content: (container, pristine copy)."""
    import pkgutil

    import dep_logic

    out, seen = [], set()
    for mod in pkgutil.walk_packages(dep_logic.__path__, "dep_logic."):
        try:
            m = importlib.import_module(mod.name)
        except Exception:
            continue
        holders = [m] + [v for v in vars(m).values() if isinstance(v, type) and getattr(v, "__module__", "").startswith("dep_logic")]
        for h in holders:
            for name, v in list(vars(h).items()):
                if name.startswith("__") or id(v) in seen:
                    continue
                if type(v) in (dict, list, set):
                    seen.add(id(v))
                    out.append((v, type(v)(v)))
    return out


def reset_caches() -> None:
    global _CACHES, _CONTAINERS
    if _CACHES is None:
        _CACHES = _find_caches()
    if _CONTAINERS is None:
        _CONTAINERS = _snapshot_containers()
    for c in _CACHES:
        c.cache_clear()
    for live, pristine in _CONTAINERS:
        if live != pristine:
            live.clear()
            if isinstance(live, dict):
                live.update(pristine)
            elif isinstance(live, list):
                live.extend(pristine)
            else:
                live.update(pristine)


def cache_sizes() -> int:
    global _CACHES
    if _CACHES is None:
        _CACHES = _find_caches()
    n = 0
    for c in _CACHES:
        try:
            n += c.cache_info().currsize
        except Exception:
            pass
    return n


# --------------------------------------------------------------------------
_ARMED = False


def _alarm(signum, frame):
    if not _ARMED:  # late tick while the case is already being wound up
        return
    # an exception raised inside a gc / finaliser hook is swallowed by the interpreter: wait for the next tick
    f = frame
    while f is not None:
        if f.f_code.co_name in ("gc_callback", "__del__"):
            return
        f = f.f_back
    raise CaseTimeout()


def jkey(obj) -> str:
    return json.dumps(obj, sort_keys=True, default=_jsonable, separators=(",", ":"))


def _jsonable(o):
    if isinstance(o, (set, frozenset)):
        return sorted(o)
    if isinstance(o, tuple):
        return list(o)
    return str(o)


def h64(obj) -> int:
    return int.from_bytes(hashlib.blake2b(jkey(obj).encode(), digest_size=8).digest(), "big")


def in_dep_logic(tb) -> str | None:
    """Innermost dep_logic frame of a traceback, or None when the exception never
    passed through the code under test (=> harness bug, not a violation)."""
    where = None
    for fs in traceback.extract_tb(tb):
        fn = fs.filename.replace("\\", "/")
        if "/dep_logic/" in fn:
            where = f"{fn.split('/dep_logic/')[-1]}:{fs.name}"
    return where


class Acc:
    """Counters of one shard; merged by the parent."""

    MAX_SAMPLES = 6
    MAX_FAIL_PER_BUCKET = 4

    def __init__(self) -> None:
        self.evaluations = 0
        self.layers: collections.Counter = collections.Counter()
        self.labels: collections.Counter = collections.Counter()
        self.nontrivial: set[int] = set()
        self.nontrivial_exhaustive = 0  # distinct by construction
        self.samples: list = []
        self.failures: dict[str, list] = {}
        self.fail_counts: collections.Counter = collections.Counter()
        self.excluded_known: collections.Counter = collections.Counter()
        self.discarded: collections.Counter = collections.Counter()
        self.timeouts = 0
        self.oracle_evaluations = 0
        self.exhaustive_layers: set[str] = set()

    # -- recording -------------------------------------------------------
    def case(self, layer: str, n: int = 1) -> None:
        self.evaluations += n
        self.layers[layer] += n

    def label(self, *names: str) -> None:
        for n in names:
            self.labels[n] += 1

    def nontriv(self, key) -> None:
        self.nontrivial.add(h64(key))

    def sample(self, obj, layer: str = "") -> None:
        if sum(1 for l, _ in self.samples if l == layer) < 3:
            self.samples.append((layer, obj))

    def fail(self, kind: str, bucket: str, case, expected=None, got=None, detail=None):
        self.fail_counts[bucket] += 1
        lst = self.failures.setdefault(bucket, [])
        if len(lst) < self.MAX_FAIL_PER_BUCKET:
            lst.append(
                {
                    "kind": kind,
                    "bucket": bucket,
                    "case": case,
                    "expected": expected,
                    "got": got,
                    "detail": detail,
                }
            )

    # -- merging ---------------------------------------------------------
    def dump(self) -> dict:
        return self.__dict__

    def merge(self, d: dict) -> None:
        self.evaluations += d["evaluations"]
        self.layers.update(d["layers"])
        self.labels.update(d["labels"])
        self.nontrivial |= d["nontrivial"]
        self.nontrivial_exhaustive += d["nontrivial_exhaustive"]
        for l, s in d["samples"]:
            self.sample(s, l)
        for b, lst in d["failures"].items():
            mine = self.failures.setdefault(b, [])
            mine.extend(lst[: max(0, self.MAX_FAIL_PER_BUCKET - len(mine))])
        self.fail_counts.update(d["fail_counts"])
        self.excluded_known.update(d["excluded_known"])
        self.discarded.update(d["discarded"])
        self.timeouts += d["timeouts"]
        self.oracle_evaluations += d["oracle_evaluations"]
        self.exhaustive_layers |= d["exhaustive_layers"]


def guarded(acc: Acc, kind: str, case, fn, timeout_s: float, isolate: bool = True):
    """Run fn(case) for one case: fresh caches, a SIGALRM cap (cap hit = inconclusive),
    exceptions that passed through dep_logic = violation, others = harness error."""
    if isolate:
        reset_caches()
    global _ARMED
    signal.signal(signal.SIGALRM, _alarm)
    _ARMED = True
    signal.setitimer(signal.ITIMER_REAL, timeout_s, 0.05)  # re-fires: a CaseTimeout swallowed by a gc/finaliser hook must not disarm the cap
    try:
        try:
            return fn(case)
        finally:
            _ARMED = False
    except CaseTimeout:
        acc.timeouts += 1
        return None
    except HarnessError:
        raise
    except RecursionError:
        acc.timeouts += 1
        return None
    except Exception as e:  # noqa: BLE001
        where = in_dep_logic(e.__traceback__)
        if where is None:
            raise HarnessError(
                f"harness exception on case {jkey(case)[:300]}: {traceback.format_exc()}"
            ) from e
        acc.fail(
            kind,
            f"{kind}:exception:{type(e).__name__}@{where}",
            case,
            expected="no exception",
            got=f"{type(e).__name__}: {str(e)[:200]}",
        )
        return None
    finally:
        signal.setitimer(signal.ITIMER_REAL, 0)


def run_hypothesis(acc: Acc, strategy, body, n: int, seed: int) -> None:
    """Drive `body(case)` with n generated cases. Failures are *recorded* by body (collect
    phase, Phase.generate only) so that one run reports every bucket."""
    import hypothesis
    from hypothesis import HealthCheck, Phase, given, settings

    @hypothesis.seed(seed)
    @settings(
        max_examples=n,
        database=None,
        deadline=None,
        derandomize=False,
        report_multiple_bugs=False,
        suppress_health_check=list(HealthCheck),
        phases=[Phase.generate],
    )
    @given(strategy)
    def _t(case):
        body(case)

    _t()


def process(mod, acc: Acc, kind: str, case, layer: str, timeout_s: float | None = None, isolate=True):
    """One case through known-class exclusion, isolation and the module's evaluate()."""
    known = mod.is_known(kind, case) if KNOWN_ENABLED and hasattr(mod, "is_known") else None
    if known:
        acc.excluded_known[known] += 1
        return
    acc.case(layer)
    guarded(
        acc,
        kind,
        case,
        lambda c: mod.evaluate(kind, c, acc),
        timeout_s or getattr(mod, "CASE_TIMEOUT", 10.0),
        isolate=isolate,
    )


def fails(mod, kind, case, bucket=None) -> list[dict]:
    acc = Acc()
    guarded(acc, kind, case, lambda c: mod.evaluate(kind, c, acc), 2 * getattr(mod, "CASE_TIMEOUT", 10.0))
    out = [f for lst in acc.failures.values() for f in lst]
    if bucket is not None:
        # the part after "|" is descriptive (atom classes) and may change while shrinking
        out = [f for f in out if f["bucket"].split("|")[0] == bucket.split("|")[0]]
    return out



# --------------------------------------------------------------------------
def _worker(task):
    modname, fname, args = task
    acc = Acc()
    try:
        mod = importlib.import_module(modname)
        getattr(mod, fname)(acc, *args)
        return ("ok", acc.dump())
    except HarnessError:
        return ("err", f"task {task!r}\n{traceback.format_exc()}")
    except Exception as e:  # noqa: BLE001
        # safety net: an exception that came out of the code under test outside a guarded case
        # (e.g. while building an evidence sample) is a finding about dep-logic, not a harness error
        where = in_dep_logic(e.__traceback__)
        if where is None:
            return ("err", f"task {task!r}\n{traceback.format_exc()}")
        acc.fail("task", f"unguarded-exception:{type(e).__name__}@{where}", {"task": [modname, fname, list(args)]}, expected="no exception", got=f"{type(e).__name__}: {str(e)[:200]}")
        return ("ok", acc.dump())
    except BaseException:  # noqa: BLE001
        return ("err", f"task {task!r}\n{traceback.format_exc()}")


def run_tasks(tasks: list, acc: Acc) -> None:
    if not tasks:
        return
    ctx = mp.get_context("fork")
    with ctx.Pool(min(NPROC, len(tasks))) as pool:
        for status, payload in pool.imap_unordered(_worker, tasks, chunksize=1):
            if status == "err":
                pool.terminate()
                raise HarnessError(payload)
            acc.merge(payload)


# --------------------------------------------------------------------------
def minimize(case, candidates, still_fails, budget_s: float = 45.0):
    """Greedy delta-debugging over a check-specific candidate function."""
    t0 = time.time()
    cur = case
    improved = True
    while improved and time.time() - t0 < budget_s:
        improved = False
        for cand in candidates(cur):
            if time.time() - t0 > budget_s:
                break
            try:
                if still_fails(cand):
                    cur = cand
                    improved = True
                    break
            except HarnessError:
                continue
    return cur


def load_known(prop: str) -> list[dict]:
    path = os.path.join(VERIF, "known_findings.json")
    if not os.path.exists(path):
        return []
    with open(path) as f:
        data = json.load(f)
    return [e for e in data.get("findings", []) if e.get("property") == prop]


def load_corpus(prop: str) -> list[dict]:
    d = os.path.join(VERIF, "corpus", prop)
    out = []
    if os.path.isdir(d):
        for fn in sorted(os.listdir(d)):
            if fn.endswith(".json"):
                with open(os.path.join(d, fn)) as f:
                    e = json.load(f)
                e["_file"] = fn
                out.append(e)
    return out


def write_replay(prop: str, failure: dict) -> str:
    d = os.path.join(VERIF, "replays")
    if os.environ.get("VERIF_NO_EVIDENCE"):
        d = os.path.join("/tmp", "vp_selftest_replays")
    os.makedirs(d, exist_ok=True)
    name = f"{prop}_{hashlib.blake2b(failure['bucket'].encode(), digest_size=5).hexdigest()}.json"
    path = os.path.join(d, name)
    with open(path, "w") as f:
        json.dump({"property": prop, **failure}, f, indent=1, default=_jsonable, sort_keys=True)
    return path


def write_evidence(prop, tier, seed, acc: Acc, meta: dict, wall: float, violations: int):
    d = os.path.join(VERIF, "evidence")
    if os.environ.get("VERIF_NO_EVIDENCE"):  # self-test runs against scratch copies
        d = os.path.join("/tmp", "vp_selftest_evidence")
    os.makedirs(d, exist_ok=True)
    cov = {
        "evaluations": acc.evaluations,
        "distinct_nontrivial": acc.nontrivial_exhaustive + len(acc.nontrivial),
        "rule": meta["rule"],
        "samples": [{"layer": l, **(s if isinstance(s, dict) else {"case": s})} for l, s in acc.samples[:12]],
        "layers": dict(acc.layers),
        "exhaustive_layers": sorted(acc.exhaustive_layers),
        "exhaustive": bool(meta.get("exhaustive", False)),
        "labels": dict(sorted(acc.labels.items(), key=lambda kv: -kv[1])[:80]),
        "excluded_known": dict(acc.excluded_known),
        "discarded": dict(acc.discarded),
        "inconclusive_timeouts": acc.timeouts,
        "oracle_evaluations": acc.oracle_evaluations,
        "failure_buckets": dict(acc.fail_counts),
        "shards": meta.get("shards", 0),
    }
    ev = {
        "property_id": prop,
        "tier": tier,
        "seed": seed,
        "level": "exploration",
        "coverage": cov,
        "assumptions": meta.get("assumptions", []),
        "wall_s": round(wall, 2),
        "violations": violations,
    }
    path = os.path.join(d, f"{prop}.json")
    tmp = path + ".tmp"
    with open(tmp, "w") as f:
        json.dump(ev, f, indent=1, default=_jsonable)
    os.replace(tmp, path)
    return path

