"""Order-cell model of version-specifier meaning (DESIGN §3.2).

For sorted distinct bounds b1<...<bk the PEP 440 order is cut into 2k+1 cells
(gap, point b1, gap, ..., point bk, gap).  Under interval semantics membership in a
specifier whose bounds are among the bi is constant on each cell, so two specifiers
denote the same set iff they contain the same cells.  Membership is read from the
structural fields only (min/max/include_*/ranges, class for Empty/Any).
"""

from __future__ import annotations

from packaging.version import Version

from dep_logic.specifiers import (
    AnySpecifier,
    EmptySpecifier,
    RangeSpecifier,
    UnionSpecifier,
)


class ModelError(Exception):
    """The object is outside the interval model (=== / generic specifiers)."""


def ranges_of(s):
    if isinstance(s, EmptySpecifier):
        return []
    if isinstance(s, AnySpecifier):
        return [(None, None, False, False)]
    if isinstance(s, RangeSpecifier):
        return [(s.min, s.max, s.include_min, s.include_max)]
    if isinstance(s, UnionSpecifier):
        for r in s.ranges:
            if not isinstance(r, RangeSpecifier):  # malformed result (e.g. a union nested in a union)
                raise ModelError(f"UnionSpecifier-with-{type(r).__name__}-member")
        return [(r.min, r.max, r.include_min, r.include_max) for r in s.ranges]
    raise ModelError(type(s).__name__)


def bounds(*specs) -> list[Version]:
    bs = set()
    for s in specs:
        for lo, hi, _, _ in ranges_of(s):
            if lo is not None:
                bs.add(lo)
            if hi is not None:
                bs.add(hi)
    return sorted(bs)


def cellmask(s, bs: list[Version]) -> int:
    """Bit c set iff cell c (0..2k) belongs to s. bs must contain all bounds of s."""
    idx = {b: 2 * i + 1 for i, b in enumerate(bs)}
    n = 2 * len(bs) + 1
    out = 0
    for lo, hi, ilo, ihi in ranges_of(s):
        if lo is None:
            start = 0
        else:
            start = idx[lo] if ilo else idx[lo] + 1
        if hi is None:
            end = n - 1
        else:
            end = idx[hi] if ihi else idx[hi] - 1
        if start <= end:
            out |= ((1 << (end - start + 1)) - 1) << start
    return out


def build(mask: int, pts: list[Version], universal="range"):
    """The unique canonical object whose cell set over pts is `mask`."""
    k = len(pts)
    n = 2 * k + 1
    ranges = []
    c = 0
    while c < n:
        if not (mask >> c) & 1:
            c += 1
            continue
        s = c
        while c + 1 < n and (mask >> (c + 1)) & 1:
            c += 1
        e = c
        lo = hi = None
        ilo = ihi = False
        if s > 0:
            if s % 2 == 1:
                lo, ilo = pts[s // 2], True
            else:
                lo, ilo = pts[s // 2 - 1], False
        if e < n - 1:
            if e % 2 == 1:
                hi, ihi = pts[e // 2], True
            else:
                hi, ihi = pts[e // 2], False
        ranges.append(RangeSpecifier(min=lo, max=hi, include_min=ilo, include_max=ihi))
        c += 1
    if not ranges:
        return EmptySpecifier()
    if len(ranges) == 1:
        r = ranges[0]
        if r.min is None and r.max is None and universal == "any":
            return AnySpecifier()
        return r
    return UnionSpecifier(tuple(ranges))


def canonical_problems(s) -> list[str]:
    """C05's structural validator."""
    probs: list[str] = []
    if isinstance(s, (EmptySpecifier, AnySpecifier)):
        return probs
    if isinstance(s, RangeSpecifier):
        rs = [s]
    elif isinstance(s, UnionSpecifier):
        rs = list(s.ranges)
        if len(rs) < 2:
            probs.append("union-with-fewer-than-2-ranges")
        for r in rs:
            if not isinstance(r, RangeSpecifier):
                probs.append("union-member-class-" + type(r).__name__)
                return probs
            if r.min is None and r.max is None:
                probs.append("universal-union-member")
    else:
        return ["class-" + type(s).__name__]
    for r in rs:
        if r.min is None and r.include_min or r.max is None and r.include_max:
            probs.append("inclusive-infinite-bound")
        if r.min is not None and r.max is not None:
            if r.min > r.max:
                probs.append("min>max")
            if r.min == r.max and not (r.include_min and r.include_max):
                probs.append("degenerate-range")
    for a, b in zip(rs, rs[1:]):
        if a.max is None or b.min is None:
            probs.append("unbounded-inner-end")
            continue
        if a.max > b.min:
            probs.append("overlapping-or-unsorted")
        elif a.max == b.min and (a.include_max or b.include_min):
            probs.append("touching-ranges")
    return probs


def describe(s):
    """JSON-able structural description (used in replay files and samples)."""
    try:
        return {
            "cls": type(s).__name__,
            "ranges": [
                [None if lo is None else str(lo), None if hi is None else str(hi), ilo, ihi]
                for lo, hi, ilo, ihi in ranges_of(s)
            ],
        }
    except ModelError:
        try:
            return {"cls": type(s).__name__, "text": str(s)}
        except Exception:  # noqa: BLE001
            return {"cls": type(s).__name__, "text": "<unprintable>"}


def brief(s) -> str:
    """Compact interval notation for samples."""
    try:
        rs = ranges_of(s)
    except ModelError:
        return f"{type(s).__name__}({s})"
    if not rs:
        return "{}"
    return " u ".join(
        ("[" if ilo else "(") + ("-inf" if lo is None else str(lo)) + "," + ("+inf" if hi is None else str(hi)) + ("]" if ihi else ")")
        for lo, hi, ilo, ihi in rs
    )


def from_desc(d):
    cls = d["cls"]
    if cls == "EmptySpecifier":
        return EmptySpecifier()
    if cls == "AnySpecifier":
        return AnySpecifier()
    rs = [
        RangeSpecifier(
            min=None if lo is None else Version(lo),
            max=None if hi is None else Version(hi),
            include_min=ilo,
            include_max=ihi,
        )
        for lo, hi, ilo, ihi in d["ranges"]
    ]
    if cls == "RangeSpecifier":
        return rs[0]
    return UnionSpecifier(tuple(rs))


def same_set(x, y) -> bool:
    bs = bounds(x, y)
    return cellmask(x, bs) == cellmask(y, bs)


# bound assignments for the exhaustive layers: different *shapes* of versions,
# each list strictly ascending in PEP 440 order
ASSIGNMENTS = [
    ["1.0.dev0", "1.0", "1.0.post0", "2!0", "3!1"],  # post0: a post-release whose number is falsy
    ["1", "1.0.0.1", "1.1", "2", "10"],
    ["0.9a1", "0.9", "1.0rc1.post1", "1.0", "1.0.post0.dev1"],
    ["3.7", "3.7.5", "3.8", "3.10", "4"],
    # the release 0 as a bound: 0.dev0 < 0a1 < 0rc1 < 0 lie below it (">=0" is not "any version")
    ["0", "0.0.1", "0.1", "1", "1!0"],
]
