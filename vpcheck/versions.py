"""Generators for public PEP 440 versions and specifier texts (DESIGN §3.1, §3.2).

Everything is built by construction (no filtering); all randomness comes from
Hypothesis so that runs are a function of the seed.
"""

from __future__ import annotations

from hypothesis import strategies as st

def _choice(n):
    """Uniform choice index (st.integers is biased towards its end points)."""
    return st.sampled_from(range(n))


SEG = st.sampled_from([0, 1, 2, 3, 9, 10, 11])
RELEASE = st.lists(SEG, min_size=1, max_size=5)
EPOCH = st.sampled_from(["", "", "", "", "", "", "", "", "0!", "1!", "2!"])
SMALL = st.sampled_from([0, 1, 2])


@st.composite
def canonical_version(draw, epoch=True, suffix=True, min_len=1, max_len=5):
    rel = draw(st.lists(SEG, min_size=min_len, max_size=max_len))
    s = ".".join(map(str, rel))
    if epoch:
        e = draw(EPOCH)
        if e == "0!":
            e = ""
        s = e + s
    if suffix:
        k = draw(_choice(14))
        if k == 0:
            s += draw(st.sampled_from(["a", "b", "rc"])) + str(draw(SMALL))
        elif k == 1:
            s += f".post{draw(SMALL)}"
        elif k == 2:
            s += f".dev{draw(SMALL)}"
        elif k == 3:
            s += draw(st.sampled_from(["a", "rc"])) + str(draw(SMALL)) + f".post{draw(SMALL)}"
        elif k == 4:
            s += f".post{draw(SMALL)}.dev{draw(SMALL)}"
        elif k == 5:
            s += (
                draw(st.sampled_from(["a", "b", "rc"]))
                + str(draw(SMALL))
                + f".post{draw(SMALL)}.dev{draw(SMALL)}"
            )
        elif k == 6:
            s += draw(st.sampled_from(["a", "rc"])) + str(draw(SMALL)) + f".dev{draw(SMALL)}"
    return s


_PRE_SPELL = {
    "a": ["a", "alpha", "A", "Alpha"],
    "b": ["b", "beta", "B"],
    "rc": ["rc", "c", "pre", "preview", "RC"],
}


@st.composite
def spelled_version(draw, epoch=True, min_len=1, max_len=4, suffix=True):
    """Any spelling packaging's specifier regex accepts for a public version."""
    s = ""
    if draw(_choice(8)) == 0:
        s += draw(st.sampled_from(["v", "V"]))
    if epoch and draw(_choice(6)) == 0:
        s += draw(st.sampled_from(["0!", "1!", "2!", "01!"]))
    nums = draw(st.lists(SEG, min_size=min_len, max_size=max_len))
    segs = [str(n) for n in nums]
    if draw(_choice(10)) == 0:
        i = draw(st.integers(0, len(segs) - 1))
        segs[i] = "0" + segs[i]
    s += ".".join(segs)
    if not suffix:
        return s
    sep = st.sampled_from(["", ".", "-", "_"])
    k = draw(_choice(12))
    if k in (0, 1, 5):
        kind = draw(st.sampled_from(["a", "b", "rc"]))
        s += draw(sep) + draw(st.sampled_from(_PRE_SPELL[kind]))
        n = draw(st.sampled_from(["", "0", "1", "2"]))
        if n:
            s += draw(st.sampled_from(["", ".", "-", "_"])) + n
    if k in (1, 2, 6):
        form = draw(_choice(4))
        if form == 0:
            s += "-" + str(draw(st.sampled_from([0, 1, 2])))  # implicit post release
        else:
            s += draw(sep) + draw(st.sampled_from(["post", "rev", "r", "POST"]))
            n = draw(st.sampled_from(["", "0", "1", "2"]))
            if n:
                s += draw(st.sampled_from(["", ".", "-", "_"])) + n
    if k in (1, 3, 5, 6):
        s += draw(sep) + draw(st.sampled_from(["dev", "DEV"]))
        n = draw(st.sampled_from(["", "0", "1", "2"]))
        if n:
            s += draw(st.sampled_from(["", ".", "-", "_"])) + n
    return s


BLANK = st.sampled_from(["", "", "", " ", "  "])


@st.composite
def clause(draw, version=None, arbitrary=False):
    """One valid PEP 440 clause."""
    ver = version or canonical_version
    ops = [">", ">=", "<", "<=", "==", "!=", "~=", "==*", "!=*"]
    if arbitrary:
        ops.append("===")
    op = draw(st.sampled_from(ops))
    ws = draw(BLANK)
    if op in ("==*", "!=*"):
        v = draw(ver(suffix=False, max_len=3))
        return op[:2] + ws + v + ".*"
    if op == "~=":
        return op + ws + draw(ver(min_len=2))
    if op == "===":
        return op + ws + draw(st.sampled_from(["1.0", "1.0.0", "abc", "1.0+x", "2"]))
    return op + ws + draw(ver())


@st.composite
def range_text(draw, version=None):
    ver = version or canonical_version
    lo = draw(st.none() | ver())
    hi = draw(st.none() | ver())
    parts = []
    if lo is not None:
        parts.append(draw(st.sampled_from([">", ">="])) + lo)
    if hi is not None:
        parts.append(draw(st.sampled_from(["<", "<="])) + hi)
    return ",".join(parts)


@st.composite
def comma_set(draw, version=None, max_clauses=3, arbitrary=False):
    k = draw(_choice(10))
    if k <= 2:
        return draw(range_text(version))
    n = draw(st.integers(1, max_clauses))
    cl = [draw(clause(version, arbitrary=arbitrary)) for _ in range(n)]
    sep = draw(st.sampled_from([",", ",", ", ", " ,"]))
    return sep.join(cl)


@st.composite
def union_text(draw, version=None, max_sets=4):
    if draw(_choice(30)) == 0:
        return "<empty>"
    sets = [draw(comma_set(version)) for _ in range(draw(st.integers(1, max_sets)))]
    sets = [s for s in sets if s] or [""]
    return "||".join(sets)


def spec_expr(leaf, max_leaves=5):
    """Expression trees over &, |, ~ with text leaves: ("leaf", text) | ("and", l, r) | ("or", l, r) | ("not", x)."""
    return st.recursive(
        leaf.map(lambda t: ["leaf", t]),
        lambda ch: st.one_of(
            st.tuples(st.sampled_from(["and", "or"]), ch, ch).map(list),
            st.tuples(st.just("not"), ch).map(list),
        ),
        max_leaves=max_leaves,
    )


@st.composite
def cell_leaf(draw, max_bounds=6):
    """A canonical object chosen by (bounds, cell subset): uniform over order types,
    arbitrary version shapes.  Returned as ["obj", description]."""
    from packaging.version import Version

    from .specmodel import build, describe

    vs = draw(st.lists(canonical_version(), min_size=1, max_size=max_bounds))
    pts = sorted({Version(v) for v in vs})
    n = 2 * len(pts) + 1
    bits = draw(st.lists(st.booleans(), min_size=n, max_size=n))
    mask = sum(1 << i for i, b in enumerate(bits) if b)
    univ = draw(st.sampled_from(["range", "any"]))
    return ["obj", describe(build(mask, pts, universal=univ))]


def spec_expr_mixed(max_sets=3, max_leaves=4, version=None):
    leaf = st.one_of(union_text(version, max_sets=max_sets).map(lambda t: ["leaf", t]), cell_leaf())
    return st.recursive(
        leaf,
        lambda ch: st.one_of(
            st.tuples(st.sampled_from(["and", "or"]), ch, ch).map(list),
            st.tuples(st.just("not"), ch).map(list),
        ),
        max_leaves=max_leaves,
    )
