"""atheris (libFuzzer) driver: coverage-guided bytes -> the same evaluate() oracle.

Runs in the worker process. libFuzzer's -runs bounds the campaign; failures are recorded through
Acc exactly like Hypothesis cases (and excluded-known classes are returned early), so the fuzzer
keeps going after a finding.
"""

from __future__ import annotations

import os
import sys
import tempfile

from . import harness


def run_atheris(acc, mod, kind, decode, seed, runs, max_len=48, layer="atheris", seeds=()):
    deps = os.path.join(harness.VERIF, ".deps")
    if deps not in sys.path:
        sys.path.append(deps)
    try:
        import atheris
    except Exception:  # noqa: BLE001
        acc.discarded["atheris-unavailable"] += 1
        return

    def one(data: bytes):
        try:
            case = decode(data)
        except Exception:  # noqa: BLE001
            return
        harness.process(mod, acc, kind, case, layer, isolate=True)

    with tempfile.TemporaryDirectory(prefix="vpfuzz") as corpus:
        for i, s in enumerate(seeds):
            with open(os.path.join(corpus, f"seed{i}"), "wb") as f:
                f.write(s if isinstance(s, bytes) else s.encode())
        argv = [sys.argv[0], f"-runs={runs}", f"-seed={seed % (2**31 - 1) + 1}", f"-max_len={max_len}", "-only_ascii=1", "-verbosity=0", "-print_final_stats=0", corpus]
        atheris.instrument_all() if False else None
        with atheris.instrument_imports(include=["dep_logic"]):
            pass
        atheris.Setup(argv, one)
        # libFuzzer calls exit() at the end of the run; fork so that the worker survives
        rd, wr = os.pipe()
        pid = os.fork()
        if pid == 0:
            os.close(rd)
            import atexit
            import pickle

            def flush():
                with os.fdopen(wr, "wb") as f:
                    pickle.dump(acc.dump(), f)

            try:
                devnull = os.open(os.devnull, os.O_WRONLY)
                os.dup2(devnull, 2)
                atheris.Fuzz()
            except SystemExit:
                pass
            finally:
                flush()
                os._exit(0)
        os.close(wr)
        import pickle

        with os.fdopen(rd, "rb") as f:
            data = f.read()
        os.waitpid(pid, 0)
        if data:
            child = pickle.loads(data)
            fresh = harness.Acc()
            fresh.merge(child)
            # child started from a copy of acc: replace rather than add
            acc.__dict__.update(fresh.__dict__)
        else:
            acc.discarded["atheris-run-lost"] += 1
