"""atheris (libFuzzer) driver: coverage-guided bytes -> the same evaluate() oracle.

Runs in the worker process. libFuzzer's -runs bounds the campaign; failures are recorded through
Acc exactly like Hypothesis cases (and excluded-known classes are returned early), so the fuzzer
keeps going after a finding.
"""

from __future__ import annotations

import os
import sys
import tempfile

from . import harness


def run_atheris(acc, mod, kind, decode, seed, runs, max_len=48, layer="atheris", seeds=(), ascii_only=True):
    for deps in (os.path.join(harness.VERIF, ".deps"), "/verif/.deps"):
        if os.path.isdir(deps) and deps not in sys.path:
            sys.path.append(deps)
    try:
        import atheris
    except Exception:  # noqa: BLE001
        acc.discarded["atheris-unavailable"] += 1
        return

    state = {"n": 0, "fails": 0, "path": None}

    def dump():
        import pickle

        tmp = state["path"] + ".tmp"
        with open(tmp, "wb") as f:
            pickle.dump(acc.dump(), f)
        os.replace(tmp, state["path"])

    def one(data: bytes):
        try:
            case = decode(data)
        except Exception:  # noqa: BLE001
            return
        harness.process(mod, acc, kind, case, layer, isolate=True)
        state["n"] += 1
        nf = sum(acc.fail_counts.values())
        # libFuzzer leaves through exit() (no atexit, no exception): persist progress as we go
        if state["n"] % 2000 == 0 or state["n"] >= runs - 2 or nf != state["fails"]:
            state["fails"] = nf
            dump()

    with tempfile.TemporaryDirectory(prefix="vpfuzz") as corpus, tempfile.TemporaryDirectory(prefix="vpfuzzout") as outdir:
        state["path"] = os.path.join(outdir, "acc.pickle")
        for i, s_ in enumerate(seeds):
            with open(os.path.join(corpus, f"seed{i}"), "wb") as f:
                f.write(s_ if isinstance(s_, bytes) else s_.encode())
        argv = [sys.argv[0], f"-runs={runs}", f"-seed={seed % (2**31 - 1) + 1}", f"-max_len={max_len}", f"-only_ascii={1 if ascii_only else 0}", "-verbosity=0", "-print_final_stats=0", corpus]
        pid = os.fork()
        if pid == 0:
            try:
                devnull = os.open(os.devnull, os.O_WRONLY)
                os.dup2(devnull, 2)
                os.dup2(devnull, 1)
                with atheris.instrument_imports(include=["dep_logic"]):
                    pass
                atheris.Setup(argv, one)
                atheris.Fuzz()
            finally:
                os._exit(0)
        os.waitpid(pid, 0)
        import pickle

        if os.path.exists(state["path"]):
            with open(state["path"], "rb") as f:
                child = pickle.load(f)
            fresh = harness.Acc()
            fresh.merge(child)
            # the child started from a copy of acc: replace rather than add
            acc.__dict__.update(fresh.__dict__)
        else:
            acc.discarded["atheris-run-lost"] += 1
