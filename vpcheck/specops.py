"""Shared evaluation of specifier cases for C01 / C05 / C14 (one enumeration, separate oracles).

Case kinds
  cellpair : {"pts":[...], "a":mask, "b":mask, "univ":"range"|"any"}   exhaustive layer
  expr     : {"a": tree, "b": tree}                                      Hypothesis layer
             tree = ["leaf", text] | ["and", l, r] | ["or", l, r] | ["not", x]
"""

from __future__ import annotations

from packaging.version import Version

from dep_logic.specifiers import (
    AnySpecifier,
    EmptySpecifier,
    RangeSpecifier,
    UnionSpecifier,
    parse_version_specifier,
)

from .specmodel import ModelError, bounds, build, cellmask, describe, ranges_of


def cls(s) -> str:
    return {
        "EmptySpecifier": "E",
        "AnySpecifier": "A",
        "RangeSpecifier": "R",
        "UnionSpecifier": "U",
    }.get(type(s).__name__, type(s).__name__)


def shape(s) -> str:
    c = cls(s)
    if c == "R" and s.min is None and s.max is None:
        return "R*"
    if c == "U":
        return f"U{len(s.ranges)}"
    return c


class LeafError(Exception):
    """A leaf text could not be parsed (C17's business, not the algebra's)."""


class Node:
    """An evaluated expression node: the dep-logic object plus the steps that produced it."""

    __slots__ = ("obj", "steps")

    def __init__(self, obj, steps):
        self.obj = obj
        self.steps = steps  # list of (op, operand objs, result obj)


def eval_tree(tree, steps: list):
    """Evaluate with dep-logic's own operators, recording every operator application."""
    tag = tree[0]
    if tag == "leaf":
        try:
            text = tree[1]
            # the two documented entry points are twins: every third comma-set leaf comes in through the other one
            if "||" not in text and "<" + "empty>" not in text and "===" not in text and sum(text.encode()) % 3 == 0:
                from packaging.specifiers import SpecifierSet

                from dep_logic.specifiers import from_specifierset

                return from_specifierset(SpecifierSet(text))
            return parse_version_specifier(text)
        except Exception as e:  # noqa: BLE001
            raise LeafError(f"{type(e).__name__}") from None
    if tag == "obj":  # structural description (cell construction)
        from .specmodel import from_desc

        return from_desc(tree[1])
    if tag == "not":
        x = eval_tree(tree[1], steps)
        r = ~x
        steps.append(("not", (x,), r))
        return r
    a = eval_tree(tree[1], steps)
    b = eval_tree(tree[2], steps)
    r = a & b if tag == "and" else a | b
    steps.append((tag, (a, b), r))
    return r


def expected_mask(op, masks, full):
    if op == "and":
        return masks[0] & masks[1]
    if op == "or":
        return masks[0] | masks[1]
    return full & ~masks[0]


def step_ok(op, operands, result):
    """Cell-model verdict for one operator application: (ok, expected_mask, got_mask, bounds)."""
    bs = bounds(*operands, result)
    full = (1 << (2 * len(bs) + 1)) - 1
    ms = [cellmask(o, bs) for o in operands]
    exp = expected_mask(op, ms, full)
    got = cellmask(result, bs)
    return exp == got, exp, got, bs


def tree_leaves(tree):
    if tree[0] in ("leaf", "obj"):
        return [tree]
    return [l for ch in tree[1:] for l in tree_leaves(ch)]


def tree_shrinks(tree):
    """Smaller trees: replace a node by one of its children; simplify a leaf text."""
    if tree[0] == "leaf":
        t = tree[1]
        if "||" in t:
            parts = t.split("||")
            for i in range(len(parts)):
                yield ["leaf", "||".join(parts[:i] + parts[i + 1 :])]
        for part in t.split("||"):
            if "," in part:
                cl = part.split(",")
                for i in range(len(cl)):
                    yield ["leaf", t.replace(part, ",".join(cl[:i] + cl[i + 1 :]), 1)]
        return
    if tree[0] == "obj":
        return
    for ch in tree[1:]:
        yield ch
    for i, ch in enumerate(tree[1:], start=1):
        for s in tree_shrinks(ch):
            new = list(tree)
            new[i] = s
            yield new


def interacting(a, b) -> bool:
    """Non-trivial operand pair: neither empty/universal, and they share a bound or overlap."""
    try:
        ra, rb = ranges_of(a), ranges_of(b)
    except ModelError:
        return False
    if not ra or not rb:
        return False
    if any(lo is None and hi is None for lo, hi, _, _ in ra + rb):
        return False
    ba, bb = set(bounds(a)), set(bounds(b))
    if ba & bb:
        return True
    bs = bounds(a, b)
    return bool(cellmask(a, bs) & cellmask(b, bs))
