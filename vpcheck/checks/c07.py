"""C07 - marker text round trip: str() of any result re-parses to an equivalent marker.

For every marker produced by parse_marker, &, |, only(), exclude(), without_extras():
  non-empty, non-universal m: s = str(m) is accepted by parse_marker and by packaging's Marker,
  "<empty>" does not occur in s, and parse_marker(s) evaluates like m on every environment row;
  Empty <-> "<empty>" and universal <-> "" parse back to themselves (==).
Rides on C02's generators (atom tables + Hypothesis operand expressions).
"""

from __future__ import annotations

import sys

from packaging.markers import InvalidMarker as PkgInvalidMarker
from packaging.markers import Marker as PkgMarker

from dep_logic.markers import AnyMarker, EmptyMarker, parse_marker

from .. import harness
from .. import markerops as O
from .. import markers as M
from . import c02

PROP = "C07"
CASE_TIMEOUT = 8.0
MOD = __name__
META = {
    "rule": "Same operand generators as C02 (exhaustive python/string/extra atom tables + Hypothesis expressions) extended with "
    "only()/exclude()/without_extras() results; each produced marker is rendered, re-parsed by dep-logic and by packaging, "
    "and compared by truth table. Non-trivial = rendered marker contains a grouped ==/!= atom, an atom re-rendered from a "
    "merged specifier, or a union nested in a conjunction (needs parentheses); distinct by rendered text.",
    "assumptions": ["truth tables on the C02 environment grid; M4 rows (known finding) excluded"],
}


def tasks(tier, seed):
    global CASE_TIMEOUT
    CASE_TIMEOUT = 2.5 if tier == "quick" else 6.0
    n = 1400 if tier == "quick" else 40000
    shards = 48 if tier == "quick" else 192
    t = [(MOD, "hyp", (n // shards, seed * 1_000_003 + i, tier)) for i in range(shards)]
    for name, nsh in (("py-pairs", 32), ("str-triples", 16), ("extra-triples", 8), ("mixed-py-triples", 8), ("wide-with-neutral", 16), ("str-group-pairs", 8), ("consensus-py", 16), ("shared-child-unions", 16), ("factored-pairs", 4), ("factored-triples", 8), ("post-bound-pairs", 16)):
        for sh in range(nsh):
            t.append((MOD, "tables", (name, tier, sh, nsh)))
    return t


def tables(acc, name, tier, shard, nshards):
    layer = "L1-" + name
    acc.exhaustive_layers.add(layer)
    mod = sys.modules[MOD]
    for i, case in enumerate(c02.table_cases(name, tier)):
        if i % nshards == shard:
            harness.process(mod, acc, "family", {"names": [], **case}, layer)


def hyp(acc, n, seed, tier):
    mod = sys.modules[MOD]
    harness.run_hypothesis(acc, O.family_case(3 if tier == "quick" else 4), lambda c: harness.process(mod, acc, "family", c, "L2-hyp"), n, seed)


def is_known(kind, case):
    # S4a through markers: V >= lo merged with V < "X.postN" renders as ~=lo (see known_findings.json)
    return "S4a-post-release-upper-bound" if O.s4a_case(case) else None


def evaluate(kind, case, acc):
    atoms = O.expr_atoms(case["a"]) + O.expr_atoms(case["b"])
    rows = None
    seen_text = set()
    for label, m, _ in O.produced(case):
        s = str(m)
        if s in seen_text:
            continue
        seen_text.add(s)
        op = label.split(".")[-1].split("(")[0] if "." in label else label
        if isinstance(m, EmptyMarker) or isinstance(m, AnyMarker):
            back = parse_marker(s)
            want = "<empty>" if isinstance(m, EmptyMarker) else ""
            if s != want:
                acc.fail(kind, f"special-renders-wrong:{O.shape(m)}", case, expected=want, got=s)
            if not (back == m and type(back) is type(m)):
                acc.fail(kind, f"special-does-not-parse-back:{O.shape(m)}", case, expected=repr(m), got=repr(back))
            continue
        if "<empty>" in s:
            acc.fail(kind, f"empty-inside-text|{op}", case, expected="no <empty> inside a larger marker", got={"label": label, "text": s})
            continue
        try:
            PkgMarker(s)
        except PkgInvalidMarker as e:
            acc.fail(kind, f"packaging-rejects-text|{op}", case, expected="valid PEP 508 marker", got={"label": label, "text": s, "error": str(e)[:200]})
            continue
        back = parse_marker(s)  # an exception here is recorded by the harness (passes through dep_logic)
        if rows is None:
            rows = M.environments(atoms, limit=200, extra_as_set=True, salt=len(atoms))
        use = rows
        if harness.KNOWN_ENABLED:
            la = [a for a in atoms if a["op"] in ("in", "not in")] + O.text_list_atoms(s)
            kept = [r for r in rows if not M.m4_row(la, r)]
            if len(kept) != len(rows):
                acc.excluded_known["M4-rows"] += len(rows) - len(kept)
            use = kept
        tm, tb = O.table(m, use), O.table(back, use)
        acc.oracle_evaluations += 2 * len(use)
        grouped = " or " in s and " and " in s and "(" in s
        merged = any(sh in ("EqGroup", "NeGroup") for sh in _shapes(m)) or (label in ("a&b", "a|b") and m.complexity[0] < 2)
        if grouped or merged:
            acc.nontriv(s)
            acc.sample({"label": label, "text": s, "reparsed": str(back), "rows": len(use)}, "roundtrip")
        acc.label(f"shape:{O.shape(m)}", f"from:{op}")
        if tm != tb:
            i = next(k for k in range(len(use)) if tm[k] != tb[k])
            acc.fail(kind, f"reparsed-evaluates-differently|{op}:{O.shape(m)}", case, expected={"env": M.env_json(use[i]), "value": tm[i]}, got={"label": label, "text": s, "reparsed": str(back), "value": tb[i]})


def _shapes(m):
    out = [O.shape(m)]
    for c in getattr(m, "markers", ()):
        out += _shapes(c)
    return out


def candidates(kind, case):
    yield from O.case_shrinks(case)
    if case.get("names"):
        yield {**case, "names": []}
