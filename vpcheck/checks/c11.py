"""C11 - the marker <-> specifier bridge preserves meaning for Python-version atoms.

Finite domain, enumerated completely:
  (a) atom -> specifier view:  value in atom.specifier  <=>  atom.evaluate(env)  <=>  packaging's verdict,
      for every comparison / ~= / wildcard atom on python_version (X, X.Y) and python_full_version
      (X.Y, X.Y.Z), both operand orders, python_version in/not in lists, on every interpreter X.Y.Z;
  (b) specifier -> atom: MarkerExpression.from_specifier(name, s) is None or evaluates true exactly on
      the interpreters s admits (membership by packaging.SpecifierSet on the source text).
"""

from __future__ import annotations

import sys

from packaging.markers import Marker as PkgMarker
from packaging.specifiers import SpecifierSet

from dep_logic.markers import parse_marker
from dep_logic.markers.single import MarkerExpression
from dep_logic.specifiers import parse_version_specifier

from .. import harness
from .. import markers as M

PROP = "C11"
CASE_TIMEOUT = 10.0
MOD = __name__
OPS = ["==", "!=", "<", "<=", ">", ">=", "~="]
PV = ["3", "2", "3.8", "3.10", "3.0", "2.7", "4.0", "3.1", "3.9"]
PFV = ["3.8", "3.10", "3.8.0", "3.8.1", "3.10.0", "3.10.10", "2.7.18", "3.0", "3.9.2"]
LISTS = ["3.8", "3.8,3.9", "3.8, 3.10", "2.7,3.10,3.11", "3.10", "3.10, 3.11, 3.12", "2.7 3.4"]
FULL = [f"{x}.{y}.{z}" for x in (2, 3, 4) for y in range(0, 15) for z in (0, 1, 2, 5, 9, 10, 11)]
META = {
    "rule": "(a) every atom: 2 variables x 9 literals x 7 operators x 2 operand orders + wildcards + 7 in/not-in lists, each "
    "on 315 interpreters; (b) from_specifier for 2 variable names x every simple specifier over 9 literals (single comparison, "
    "~=, ==X.*, !=V, !=X.*), the two-clause ranges that render simple and 5 two-bound shapes over all pairs of 15 Python-like versions, on the same interpreters (exhaustive). Non-trivial = "
    "atom/specifier whose truth table over the interpreters is not constant; distinct by text.",
    "assumptions": [
        "interpreters are final X.Y.Z, python_version = X.Y",
        "M4 (known finding): list atoms on interpreters whose python_version is a substring but not an item of the list are excluded",
    ],
    "exhaustive": True,
}


def view_cases():
    for name, vals in (("python_version", PV), ("python_full_version", PFV)):
        for op in OPS:
            for v in vals:
                if op == "~=" and "." not in v:
                    continue
                yield {"var": name, "op": op, "val": v, "rev": False, "style": 0}
                if op != "~=":
                    yield {"var": name, "op": op, "val": v, "rev": True, "style": 0}
        for v in vals:
            if v.count(".") <= 1:
                yield {"var": name, "op": "==", "val": v + ".*", "rev": False, "style": 0}
                yield {"var": name, "op": "!=", "val": v + ".*", "rev": False, "style": 0}
    for lst in LISTS:
        yield {"var": "python_version", "op": "in", "val": lst, "rev": False, "style": 0}
        yield {"var": "python_version", "op": "not in", "val": lst, "rev": False, "style": 0}


def spec_cases():
    specs = []
    for op in OPS:
        for v in ["3", "3.8", "3.8.0", "3.8.1", "3.10", "3.10.2", "2.7", "3.0", "4"]:
            if op == "~=" and "." not in v:
                continue
            specs.append(op + v)
    for v in ["3", "3.8", "3.10", "2.7", "3.0"]:
        specs += ["==" + v + ".*", "!=" + v + ".*"]
    specs += [">=3.8,<4", ">=3.8,<3.9", ">=3.8.0,<3.9.0", ">=3.8.1,<3.9", "<3.8||>=3.9", "<3.8||>3.8", "<3.8.0||>=3.9.0", ">=3.8,<3.10", ">=3,<4", ">=3.8.1,<3.8.2", "<3||>=4", "", "<empty>", ">=3.8,<3.8"]
    # two-bound shapes over Python-like versions written with different numbers of segments: what is_simple()
    # and the ~= / ==X.* / !=X.* renderings (through which from_specifier builds its atom) inspect
    pool = ["3", "3.0", "3.7", "3.7.0", "3.8", "3.8.0", "3.8.1", "3.9", "3.9.0", "3.9.1", "3.10", "3.10.0", "4", "4.0", "4.1"]
    import itertools

    from packaging.version import Version

    for l, r in itertools.combinations(pool, 2):
        if Version(l) < Version(r):
            specs += [f"<{l}||>={r}", f"<={l}||>{r}", f"<{l}||>{r}", f">={l},<{r}", f">{l},<={r}"]
    # pre-/dev-release lower bounds (requires-python of a package that supports a beta interpreter) under the upper
    # bounds that make the range a ~= candidate, and some that do not
    for l in ["3.9rc1", "3.13.0b1", "3.8.dev0", "3.8a1", "3.9.0rc2"]:
        for r in ["4", "4.0", "3.14", "3.9", "3.10", "3.10.0", "3.13.1"]:
            if Version(l) < Version(r):
                specs += [f">={l},<{r}", f">{l},<{r}", f">={l},<={r}", f"<{l}||>={r}"]
    # single clauses whose operand carries a pre-/post-/dev-release tag (from_specifier input "all simple specifiers")
    for v in ["3.9a1", "3.9.0rc1", "3.9.0.post1", "3.10.0.dev0"]:
        specs += [op + v for op in OPS if not (op == "~=" and v.count(".") == 0)]
    for name in ("python_version", "python_full_version"):
        for s in specs:
            yield {"name": name, "spec": s}


def tasks(tier, seed):
    return [(MOD, "run", (i, 16)) for i in range(16)]


def run(acc, shard, nshards):
    acc.exhaustive_layers.update({"atom-to-specifier", "specifier-to-atom"})
    mod = sys.modules[MOD]
    for i, a in enumerate(view_cases()):
        if i % nshards == shard:
            harness.process(mod, acc, "view", {"atom": a}, "atom-to-specifier")
    for i, c in enumerate(spec_cases()):
        if i % nshards == shard:
            harness.process(mod, acc, "from", c, "specifier-to-atom")


def evaluate(kind, case, acc):
    if kind == "view":
        a = case["atom"]
        text = M.atom_text(a, plain=True)
        m = parse_marker(text)
        spec = m.specifier
        ref = PkgMarker(text)
        outcomes = set()
        for f in FULL:
            pv = ".".join(f.split(".")[:2])
            env = {"python_full_version": f, "python_version": pv}
            if harness.KNOWN_ENABLED and M.m4_row([a], env):
                acc.excluded_known["M4-rows"] += 1
                continue
            val = f if a["var"] == "python_full_version" else pv
            ev = bool(m.evaluate(env))
            inn = val in spec
            pk = bool(ref.evaluate(env))
            acc.oracle_evaluations += 1
            outcomes.add(pk)
            if not (ev == inn == pk):
                which = "view-vs-evaluate" if ev != inn else "both-vs-packaging"
                cls = ("1seg" if "." not in a["val"].replace(".*", "") else "") + ("wild" if a["val"].endswith(".*") else "") + (".rev" if a["rev"] else "")
                acc.fail(kind, f"{which}:{a['var']}:{a['op'] if a['op'] not in ('<', '<=', '>', '>=') else 'ord'}{cls}", case, expected={"text": text, "value": val, "packaging": pk}, got={"evaluate": ev, "value in specifier": inn, "specifier": str(spec)})
                break
        if len(outcomes) == 2:
            acc.nontriv(text)
            acc.sample({"atom": text, "specifier_view": str(spec)}, "view")
        return
    name, s = case["name"], case["spec"]
    spec = parse_version_specifier(s)
    m = MarkerExpression.from_specifier(name, spec)
    if m is None:
        acc.label("from_specifier:None")
        return
    acc.label(f"from_specifier:{type(m).__name__}")
    sets = [] if s == "<empty>" else [SpecifierSet(p) for p in s.split("||")]
    outcomes = set()
    for f in FULL:
        pv = ".".join(f.split(".")[:2])
        val = f if name == "python_full_version" else pv
        env = {"python_full_version": f, "python_version": pv}
        exp = any(ss.contains(val) for ss in sets)
        ev = bool(m.evaluate(env))
        acc.oracle_evaluations += 1
        outcomes.add(exp)
        # "...on the versions the specifier admits": the specifier object's own answer has to be that one, too
        own = (val in spec) if hasattr(spec, "__contains__") else exp
        if own != exp:
            acc.fail(kind, f"specifier-membership-differs-from-packaging:{name}", case, expected={"value": val, "admitted": exp}, got={"value in specifier": own, "specifier": str(spec)})
            break
        if ev != exp:
            kindop = "~=" if "~=" in s else "wild" if ".*" in s else "range" if "," in s else "other"
            acc.fail(kind, f"from_specifier:{name}:{kindop}", case, expected={"value": val, "admitted": exp}, got={"atom": str(m), "evaluate": ev})
            break
    if len(outcomes) == 2:
        acc.nontriv([name, s])
        acc.sample({"name": name, "specifier": s, "atom": str(m)}, "from_specifier")
