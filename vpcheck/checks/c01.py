"""C01 - & | ~ on version specifiers are exact intersection / union / complement.

Oracle: order-cell model (specmodel), read structurally.  Layers:
  L1 exhaustive: every ordered pair of the 2^(2k+1) canonical sets over k bounds, for
     several bound assignments of different version shapes and both spellings of the
     universal set;
  L2 Hypothesis: expression trees over parsed texts (up to 4 ranges per leaf, any
     version shape); every operator application inside the tree is checked.
"""

from __future__ import annotations

import sys

from hypothesis import strategies as st
from packaging.version import Version

from .. import harness, specops, versions
from ..specmodel import ASSIGNMENTS, ModelError, bounds, brief, build, cellmask, describe

PROP = "C01"
CASE_TIMEOUT = 10.0
META = {
    "rule": "L1: all ordered pairs of canonical cell sets over k bounds x bound assignments "
    "(exhaustive, distinct by construction); L2: Hypothesis expression trees over parsed "
    "specifier texts. Non-trivial = an operator application whose operands are both neither "
    "empty nor universal and share a bound or overlap; distinct by (cell masks, assignment) "
    "resp. by operand structure.",
    "assumptions": [
        "packaging.version.Version ordering is the PEP 440 total order",
        "membership is read structurally from min/max/include_*/ranges (interval semantics)",
    ],
}
MOD = __name__


def tasks(tier, seed):
    t = []
    plan = (
        [(3, a, u) for a in range(5) for u in ("range", "any")]
        + [(4, a, "range") for a in range(5)]
        + ([] if tier == "quick" else [(5, a, "range") for a in range(4)] + [(4, a, "any") for a in range(4)])
    )
    for k, a, u in plan:
        nsh = {3: 1, 4: 4, 5: 32}[k]
        for sh in range(nsh):
            t.append((MOD, "exh", (k, a, u, sh, nsh)))
    n = 3000 if tier == "quick" else 60000
    shards = 16 if tier == "quick" else 64
    for i in range(shards):
        t.append((MOD, "hyp", (n // shards, seed * 1_000_003 + i, tier)))
    return t


def exh(acc, k, asg, univ, shard, nshards):
    layer = f"L1-k{k}"
    acc.exhaustive_layers.add(layer)
    pts = [Version(x) for x in ASSIGNMENTS[asg][:k]]
    n = 2 * k + 1
    full = (1 << n) - 1
    objs = [build(m, pts, universal=univ) for m in range(1 << n)]
    idxset = set(pts)
    bsets = [frozenset(bounds(o)) for o in objs]

    def mask_of(r):
        try:
            if set(bounds(r)) <= idxset:
                return cellmask(r, pts)
        except ModelError:
            pass
        return None

    for ma in range(shard, 1 << n, nshards):
        a = objs[ma]
        acc.case(layer)
        r = harness.guarded(acc, "cellpair", {"pts": ASSIGNMENTS[asg][:k], "a": ma, "b": 0, "univ": univ, "op": "not"}, lambda c: ~a, 10, isolate=False)
        if r is not None and mask_of(r) != full & ~ma:
            acc.fail("cellpair", f"not:{specops.cls(a)}", {"pts": ASSIGNMENTS[asg][:k], "a": ma, "b": 0, "univ": univ, "op": "not"}, expected=bin(full & ~ma), got=describe(r))
        for mb in range(1 << n):
            b = objs[mb]
            acc.evaluations += 2
            acc.layers[layer] += 2
            try:
                r1 = a & b
                r2 = a | b
            except Exception:  # noqa: BLE001  re-run guarded to classify
                for op in ("and", "or"):
                    harness.process(sys.modules[MOD], acc, "cellpair", {"pts": ASSIGNMENTS[asg][:k], "a": ma, "b": mb, "univ": univ, "op": op}, layer, isolate=False)
                continue
            if mask_of(r1) != ma & mb:
                acc.fail("cellpair", f"and:{specops.cls(a)}x{specops.cls(b)}", {"pts": ASSIGNMENTS[asg][:k], "a": ma, "b": mb, "univ": univ, "op": "and"}, expected=bin(ma & mb), got=describe(r1))
            if mask_of(r2) != ma | mb:
                acc.fail("cellpair", f"or:{specops.cls(a)}x{specops.cls(b)}", {"pts": ASSIGNMENTS[asg][:k], "a": ma, "b": mb, "univ": univ, "op": "or"}, expected=bin(ma | mb), got=describe(r2))
            if 0 < ma < full and 0 < mb < full and ((ma & mb) or (bsets[ma] & bsets[mb])):
                acc.nontrivial_exhaustive += 2
    acc.oracle_evaluations += (1 << n) * len(range(shard, 1 << n, nshards)) * 2
    if shard == 0:
        x, y = objs[37 % (full + 1)], objs[(21 + 97 * asg) % (full + 1)]
        acc.sample({"pts": ASSIGNMENTS[asg][:k], "a": brief(x), "b": brief(y), "a&b": brief(x & y), "a|b": brief(x | y), "~a": brief(~x)}, layer)


def strategy(tier):
    tree = versions.spec_expr_mixed(max_sets=3 if tier == "quick" else 4, max_leaves=3 if tier == "quick" else 5)
    return st.fixed_dictionaries({"a": tree, "b": tree})


def hyp(acc, n, seed, tier):
    mod = sys.modules[MOD]
    harness.run_hypothesis(acc, strategy(tier), lambda c: harness.process(mod, acc, "expr", c, "L2-expr"), n, seed)


def evaluate(kind, case, acc):
    if kind == "cellpair":
        pts = [Version(x) for x in case["pts"]]
        a = build(case["a"], pts, universal=case.get("univ", "range"))
        b = build(case["b"], pts, universal=case.get("univ", "range"))
        op = case["op"]
        r = ~a if op == "not" else (a & b if op == "and" else a | b)
        steps = [(op, (a,) if op == "not" else (a, b), r)]
    else:
        steps = []
        try:
            a = specops.eval_tree(case["a"], steps)
            b = specops.eval_tree(case["b"], steps)
        except specops.LeafError as e:
            acc.discarded[f"leaf-does-not-parse:{e}"] += 1
            return
        steps.append(("and", (a, b), a & b))
        steps.append(("or", (a, b), a | b))
        steps.append(("not", (a,), ~a))
        if specops.interacting(a, b):
            acc.sample({"case": case, "a": brief(a), "b": brief(b), "a&b": brief(steps[-3][2]), "a|b": brief(steps[-2][2]), "~a": brief(steps[-1][2])}, "L2-expr")
    for op, operands, result in steps:
        try:
            ok, exp, got, bs = specops.step_ok(op, operands, result)
        except ModelError as e:
            acc.fail(kind, f"{op}:result-class-{e}", case, expected="Empty/Any/Range/Union", got=str(result))
            continue
        acc.oracle_evaluations += 2 * len(bs) + 1
        shapes = "x".join(specops.shape(o) for o in operands)
        acc.label(f"{op}:{shapes}")
        if len(operands) == 2 and specops.interacting(*operands):
            acc.nontriv([op, [describe(o) for o in operands]])
        elif len(operands) == 1 and specops.cls(operands[0]) in "RU" and specops.shape(operands[0]) != "R*":
            acc.nontriv([op, describe(operands[0])])
        if not ok:
            acc.fail(
                kind,
                f"{op}:" + "x".join(specops.cls(o) for o in operands),
                case,
                expected={"cells": bin(exp), "bounds": [str(b) for b in bs]},
                got={"cells": bin(got), "result": describe(result), "operands": [describe(o) for o in operands]},
            )


def candidates(kind, case):
    if kind != "expr":
        return
    for key in ("a", "b"):
        for s in specops.tree_shrinks(case[key]):
            yield {**case, key: s}
