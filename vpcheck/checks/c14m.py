"""C14 (marker family) - Boolean-algebra laws without ~, up to equivalence (truth tables)."""

from __future__ import annotations

import sys

from hypothesis import strategies as st

from .. import harness
from .. import markerops as O
from .. import markers as M

MOD = "vpcheck.checks.c14"


def tasks(tier, seed):
    n = 1000 if tier == "quick" else 32000
    shards = 48 if tier == "quick" else 192
    t = [("vpcheck.checks.c14m", "hyp", (n // shards, seed * 1_000_003 + 7000 + i, tier)) for i in range(shards)]
    for name, nsh in (("str", 16), ("extra", 8), ("py", 16), ("rel", 4), ("groups", 16)):
        t += [("vpcheck.checks.c14m", "tables", (name, tier, sh, nsh)) for sh in range(nsh)]
    return t


def tables(acc, name, tier, shard, nshards):
    """L1: every ordered triple of single atoms on one variable family (the laws need three operands: a group only
    forms when two atoms have met, and it then meets the third)."""
    import itertools

    from . import c02

    layer = "marker-L1-atom-triples-" + name
    acc.exhaustive_layers.add(layer)
    mod = sys.modules[MOD]
    quick = tier == "quick"
    if name == "groups":
        # ==-groups, !=-groups and single atoms of one string variable as whole operands: the group x group rules
        # need four or more atoms, which no triple of single atoms reaches
        seen, ops = set(), []
        for case in c02.table_cases("str-group-pairs", tier):
            for e in (case["a"], case["b"]):
                k = harness.jkey(e)
                if k not in seen:
                    seen.add(k)
                    ops.append(e)
        ops = ops[:: 2 if quick else 1]
        for i, (x, y, z) in enumerate(itertools.product(ops, repeat=3)):
            if i % nshards == shard:
                harness.process(mod, acc, "markertriple", {"a": x, "b": y, "c": z}, layer, timeout_s=2.5 if quick else 6.0)
        return
    if name == "str":
        A = c02.str_atoms(tier)
    elif name == "extra":
        A = c02.extra_atoms(tier)
    elif name == "py":
        full = [a for a in c02.py_atoms("quick") if not a["rev"]]
        A = full[:: 7 if quick else 3]
        A += [a for a in full if "+" in a["val"] and a not in A]  # local-label literals (== / != only) always take part
    else:
        A = c02.rel_atoms()[:: 3 if quick else 1]
    for i, (x, y, z) in enumerate(itertools.product(A, repeat=3)):
        if i % nshards == shard:
            harness.process(mod, acc, "markertriple", {"a": c02.P(x), "b": c02.P(y), "c": c02.P(z)}, layer, timeout_s=2.5 if quick else 6.0)


def strategy(tier):
    op = O.operand(max_leaves=2 if tier == "quick" else 3, depth=False)
    return st.fixed_dictionaries({"a": op, "b": op, "c": op})


def hyp(acc, n, seed, tier):
    mod = sys.modules[MOD]
    harness.run_hypothesis(acc, strategy(tier), lambda c: harness.process(mod, acc, "markertriple", c, "marker-L2-hyp", timeout_s=2.5 if tier == "quick" else 6.0), n, seed)


def laws(a, b, c):
    yield "comm-and", lambda: a & b, lambda: b & a
    yield "comm-or", lambda: a | b, lambda: b | a
    yield "assoc-and", lambda: (a & b) & c, lambda: a & (b & c)
    yield "assoc-or", lambda: (a | b) | c, lambda: a | (b | c)
    yield "idem-and", lambda: a & a, lambda: a
    yield "idem-or", lambda: a | a, lambda: a
    yield "absorb-and-or", lambda: a & (a | b), lambda: a
    yield "absorb-or-and", lambda: a | (a & b), lambda: a
    yield "distrib-and-over-or", lambda: a & (b | c), lambda: (a & b) | (a & c)
    yield "distrib-or-over-and", lambda: a | (b & c), lambda: (a | b) & (a | c)


def evaluate(kind, case, acc):
    atoms = [x for k in "abc" for x in O.expr_atoms(case[k])]
    rows = M.environments(atoms, limit=160, extra_as_set=True, salt=len(atoms))
    if harness.KNOWN_ENABLED:
        kept = [r for r in rows if not M.m4_row(atoms, r)]
        if len(kept) != len(rows):
            acc.excluded_known["M4-rows"] += len(rows) - len(kept)
        rows = kept
    a, b, c = (O.dep_eval(case[k]) for k in "abc")
    tabs = [tuple(O.table(x, rows)) for x in (a, b, c)]
    fams = [{M._family(x["var"]) for x in O.expr_atoms(case[k])} for k in "abc"]
    distinct = len(set(tabs)) == 3
    interact = bool(fams[0] & fams[1] or fams[1] & fams[2] or fams[0] & fams[2])
    acc.label(f"marker:distinct={distinct},interacting={interact}")
    if distinct and interact:
        acc.nontriv([O.expr_text(case[k]) for k in "abc"])
        acc.sample({k: O.expr_text(case[k]) for k in "abc"}, "marker-triples")
    for name, lf, rf in laws(a, b, c):
        l, r = lf(), rf()
        tl, tr = O.table(l, rows), O.table(r, rows)
        acc.oracle_evaluations += 2 * len(rows)
        if tl != tr:
            i = next(k for k in range(len(rows)) if tl[k] != tr[k])
            acc.fail(kind, f"marker:{name}|{O.classes_of(atoms)}", case, expected={"env": M.env_json(rows[i]), "lhs": tl[i]}, got={"rhs": tr[i], "lhs_marker": str(l), "rhs_marker": str(r)})


def candidates(kind, case):
    for key in "abc":
        for s in O.expr_shrinks(case[key]):
            yield {**case, key: s}
    for key in "abc":
        for other in "abc":
            if other != key and case[key] != case[other]:
                yield {**case, key: case[other]}
