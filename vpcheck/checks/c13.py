"""C13 - equality is an equivalence compatible with hashing; equal objects are interchangeable.

Specifier family (this file): fixed pools that contain the suspicious coincidences (both spellings of
the universal set, Empty, ranges with equal bounds spelled differently, with and without the cached
`simplified` text / rendered form, unions, ===, generic) plus Hypothesis-generated pools.
All pairs: reflexive, symmetric, x == y => equal hashes and len({x, y}) == 1; all triples: transitive;
for x == y and every pool operand a: meaning(a op x) == meaning(a op y).
Marker family: c13m (same relations, truth-table meaning).
"""

from __future__ import annotations

import itertools
import sys

from hypothesis import strategies as st
from packaging.version import Version

from dep_logic.specifiers import (
    AnySpecifier,
    ArbitrarySpecifier,
    EmptySpecifier,
    GenericSpecifier,
    RangeSpecifier,
    UnionSpecifier,
    parse_version_specifier,
)

from .. import harness, specops, versions
from ..specmodel import ModelError, bounds, brief, cellmask, describe, from_desc

PROP = "C13"
CASE_TIMEOUT = 30.0
MOD = __name__
META = {
    "rule": "Specifiers: a fixed pool of ~60 objects built to contain cross-class and cached-field coincidences "
    "(all ordered pairs, all triples, interchangeability against every pool operand) + Hypothesis pools of 5 "
    "objects from texts / cell construction / re-rendered copies. Markers: fixed pool of ~70 markers incl. "
    "mirrored atoms, atoms with a filled specifier cache, permuted groups/compounds + Hypothesis pools. "
    "Non-trivial = a pair of *distinct objects built differently* that compare equal; distinct by the pair's "
    "construction recipe.",
    "assumptions": ["meaning of specifier results: order-cell model; of marker results: truth table on the environment grid"],
}

P = parse_version_specifier


def V(x):
    return Version(x)


def fixed_pool():
    """(recipe, object) pairs. Recipes are only labels for evidence / replay."""
    recipes = [
        ("Empty()", lambda: EmptySpecifier()),
        ("Any()", lambda: AnySpecifier()),
        ("Range()", lambda: RangeSpecifier()),
        ('P("")', lambda: P("")),
        ('P("<empty>")', lambda: P("<empty>")),
        ("~Empty()", lambda: ~EmptySpecifier()),
        ("~Range()", lambda: ~RangeSpecifier()),
        ('P(">=1.0")', lambda: P(">=1.0")),
        ('P(">=1.0.0")', lambda: P(">=1.0.0")),
        ('P(">=1")', lambda: P(">=1")),
        ("Range(min=1.0,incl)", lambda: RangeSpecifier(min=V("1.0"), include_min=True)),
        ('str-filled P(">=1.0")', lambda: _filled(P(">=1.0"))),
        ('P("==1.0")', lambda: P("==1.0")),
        ('P("==1.0.0")', lambda: P("==1.0.0")),
        ('P(">=1.0,<=1.0")', lambda: P(">=1.0,<=1.0")),
        ("Range(1.0..1.0 incl)", lambda: RangeSpecifier(min=V("1.0"), max=V("1"), include_min=True, include_max=True)),
        ('P(">=1.2,<1.3.0")', lambda: P(">=1.2,<1.3.0")),
        ('P(">=1.2.0,<1.3")', lambda: P(">=1.2.0,<1.3")),
        ('P(">=1.2") & P("<1.3.0")', lambda: P(">=1.2") & P("<1.3.0")),
        ('P(">=1.2.0") & P("<1.3")', lambda: P(">=1.2.0") & P("<1.3")),
        ('P("!=1!2.3.*")', lambda: P("!=1!2.3.*")),
        ('~P("==1!2.3.*")', lambda: ~P("==1!2.3.*")),
        ('P("<1!2.3||>=1!2.4.0")', lambda: P("<1!2.3||>=1!2.4.0")),
        ('P("<1!2.3")|P(">=1!2.4.0")', lambda: P("<1!2.3") | P(">=1!2.4.0")),
        ('P("~=1.2")', lambda: P("~=1.2")),
        ('P(">=1.2,<2")', lambda: P(">=1.2,<2")),
        ('P(">=1.2,<2.0")', lambda: P(">=1.2,<2.0")),
        ('str-filled P(">=1.2,<2")', lambda: _filled(P(">=1.2,<2"))),
        ('P("==1.*")', lambda: P("==1.*")),
        ('P(">=1.0,<2.0")', lambda: P(">=1.0,<2.0")),
        ('P(">=1,<2")', lambda: P(">=1,<2")),
        ('P("!=1.0")', lambda: P("!=1.0")),
        ('P("<1.0||>1.0")', lambda: P("<1.0||>1.0")),
        ('P("<1||>1.0.0")', lambda: P("<1||>1.0.0")),
        ("~P(==1.0)", lambda: ~P("==1.0")),
        ('P("!=1.*")', lambda: P("!=1.*")),
        ('P("<1.0||>=2.0")', lambda: P("<1.0||>=2.0")),
        ('P("<1||>=2")', lambda: P("<1||>=2")),
        ("~P(==1.*)", lambda: ~P("==1.*")),
        ('P("<1.0||>2")', lambda: P("<1.0||>2")),
        ('P("<1.0||>=2.0||==1.5")', lambda: P("<1.0||>=2.0||==1.5")),
        ('P("==1.5||<1||>=2")', lambda: P("==1.5||<1||>=2")),
        # the release 0 as lower bound: the most plausible "other spelling" of the universal set, and not one
        ('P(">=0")', lambda: P(">=0")),
        ('P(">=0.0")', lambda: P(">=0.0")),
        ("~P(<0)", lambda: ~P("<0")),
        ('P(">=0.dev0")', lambda: P(">=0.dev0")),
        ('P(">1")', lambda: P(">1")),
        ('P("<2")', lambda: P("<2")),
        ('P("<2.0")', lambda: P("<2.0")),
        ('P(">=1.5,<3")', lambda: P(">=1.5,<3")),
        ('P(">=1.0.post1")', lambda: P(">=1.0.post1")),
        ('P(">=1.0-1")', lambda: P(">=1.0-1")),
        ('P(">=1!0")', lambda: P(">=1!0")),
        ('P(">=1!0.0")', lambda: P(">=1!0.0")),
        ('P(">=1.0a1")', lambda: P(">=1.0a1")),
        ('P(">=1.0alpha1")', lambda: P(">=1.0alpha1")),
        ('P(">=1") & P("<2")', lambda: P(">=1") & P("<2")),
        ('P(">=1") | P("<2")', lambda: P(">=1") | P("<2")),
        ('P(">=2") & P("<1")', lambda: P(">=2") & P("<1")),
        # letter case of an === operand (not a version: no range admits it, so nothing else of the pool is affected)
        ('P("===Release-7")', lambda: P("===Release-7")),
        ('P("===release-7")', lambda: P("===release-7")),
        ('P("===1.0")', lambda: P("===1.0")),
        ('P("===1.0.0")', lambda: P("===1.0.0")),
        ('Arbitrary("1.0")', lambda: ArbitrarySpecifier("1.0")),
        ('Generic("==","a")', lambda: GenericSpecifier("==", "a")),
        ('Generic("==","a") #2', lambda: GenericSpecifier("==", "a")),
        ('Generic("in","a")', lambda: GenericSpecifier("in", "a")),
        # the empty string as literal: every value contains it, no value is in it
        ('Generic("contains","")', lambda: GenericSpecifier("contains", "")),
        ('Generic("not contains","")', lambda: GenericSpecifier("not contains", "")),
        ('Generic("in","")', lambda: GenericSpecifier("in", "")),
        ('Generic("==","")', lambda: GenericSpecifier("==", "")),
        ('Generic("!=","a")', lambda: GenericSpecifier("!=", "a")),
        ('~Generic("!=","a")', lambda: ~GenericSpecifier("!=", "a")),
        ('Generic("==","a")&Generic("==","b")', lambda: GenericSpecifier("==", "a") & GenericSpecifier("==", "b")),
        ('Generic("!=","a")|Generic("!=","b")', lambda: GenericSpecifier("!=", "a") | GenericSpecifier("!=", "b")),
    ]
    return recipes


def _filled(s):
    str(s)  # fills cached rendering
    return s


def meaning(s):
    """Hashable meaning of a specifier result: cell description / class + text for non-interval classes."""
    try:
        return ("cells", tuple(_canon_ranges(s)))  # Version objects: 1.0 and 1.0.0 are the same bound
    except ModelError:
        if isinstance(s, GenericSpecifier):
            return ("generic", s.op, s.value)
        return ("other", type(s).__name__, str(s))


def _canon_ranges(s):
    from ..specmodel import build, ranges_of

    bs = bounds(s)
    return ranges_of(build(cellmask(s, bs), bs))


_VERSION_FAMILY = (RangeSpecifier, UnionSpecifier, ArbitrarySpecifier)


def _final_probes(x, y):
    out: dict[str, None] = {"0": None, "1": None, "99": None}
    try:
        bs = bounds(x, y)
    except ModelError:
        return []
    for b in bs:
        rel = list(b.release)
        ep = f"{b.epoch}!" if b.epoch else ""
        variants = [rel, rel + [1], rel[:-1] + [rel[-1] + 1], rel[:-1] + [rel[-1] + 3]]
        if len(rel) > 1:
            variants += [rel[:-1], rel[:-2] + [rel[-2] + 1], rel[:-2] + [rel[-2] + 1, 0], rel[:-2] + [rel[-2] + 3]]
        if len(rel) > 2 and rel[-1] == 0:
            variants += [rel[:-2] + [rel[-2] + 1, 5], rel[:-3] + [rel[-3] + 1]]
        for r in variants:
            out[ep + ".".join(map(str, r))] = None
    return list(out)


def _compatible_operand(a, x, y):
    """Operands are taken from the family of x and y: version specifiers are never combined with
    string (generic) specifiers by any caller, and doing so is a TypeError by design."""
    fam_v = isinstance(x, _VERSION_FAMILY) or isinstance(y, _VERSION_FAMILY)
    fam_g = isinstance(x, GenericSpecifier) or isinstance(y, GenericSpecifier)
    if fam_v and isinstance(a, GenericSpecifier):
        return False
    if fam_g and isinstance(a, _VERSION_FAMILY):
        return False
    return True


def check_pool(acc, kind, case, pool, triples=True, shard=0, nshards=1):
    """pool: list of (recipe, obj)."""
    n = len(pool)
    eqm = [[False] * n for _ in range(n)]
    for i, (ri, x) in enumerate(pool):
        if not (x == x):
            acc.fail(kind, f"spec:not-reflexive:{type(x).__name__}", case, expected="x == x", got=ri)
        for j, (rj, y) in enumerate(pool):
            acc.oracle_evaluations += 1
            e = x == y
            eqm[i][j] = bool(e)
            if (x != y) is bool(e):
                acc.fail(kind, "spec:ne-inconsistent", case, expected="(x != y) == not (x == y)", got=[ri, rj])
    for i, j in itertools.combinations(range(n), 2):
        if (i * n + j) % nshards != shard:
            continue
        (ri, x), (rj, y) = pool[i], pool[j]
        if eqm[i][j] != eqm[j][i]:
            acc.fail(kind, f"spec:asymmetric:{type(x).__name__}x{type(y).__name__}", case, expected="x == y <=> y == x", got={"x": ri, "y": rj, "x==y": eqm[i][j], "y==x": eqm[j][i]})
        if eqm[i][j]:
            acc.label("spec:equal-pair")
            if x is not y and ri != rj:
                acc.nontriv(["spec", ri, rj])
            try:
                hx, hy = hash(x), hash(y)
            except TypeError as e:
                acc.fail(kind, "spec:unhashable", case, expected="hashable", got=str(e))
                continue
            if hx != hy:
                acc.fail(kind, f"spec:equal-but-hash-differs:{type(x).__name__}x{type(y).__name__}", case, expected="hash(x) == hash(y)", got={"x": ri, "y": rj})
            elif len({x, y}) != 1 or len({x: 1, y: 2}) != 1:
                acc.fail(kind, "spec:equal-but-two-set-entries", case, expected="len({x,y}) == 1", got={"x": ri, "y": rj})
            # interchangeable as operands
            for rk, a in pool:
                if not _compatible_operand(a, x, y):
                    continue
                for opn, f in (("and", lambda p, q: p & q), ("or", lambda p, q: p | q), ("rand", lambda p, q: q & p), ("ror", lambda p, q: q | p)):
                    try:
                        r1 = f(a, x)
                    except (NotImplementedError, ValueError, TypeError) as e1:
                        r1 = ("raises", type(e1).__name__)
                    try:
                        r2 = f(a, y)
                    except (NotImplementedError, ValueError, TypeError) as e2:
                        r2 = ("raises", type(e2).__name__)
                    m1 = r1 if isinstance(r1, tuple) else meaning(r1)
                    m2 = r2 if isinstance(r2, tuple) else meaning(r2)
                    acc.oracle_evaluations += 1
                    if m1 != m2:
                        acc.fail(kind, f"spec:not-interchangeable:{opn}:{type(x).__name__}x{type(y).__name__}", case, expected="same meaning", got={"a": rk, "x": ri, "y": rj, "a op x": str(m1)[:200], "a op y": str(m2)[:200]})
            # ... and as the left operand of membership: equal objects admit the same final releases (candidates:
            # final releases around every bound, as in C04; pre/post/dev candidates are outside the interval reading)
            if isinstance(x, (RangeSpecifier, UnionSpecifier, AnySpecifier, EmptySpecifier)) and isinstance(y, (RangeSpecifier, UnionSpecifier, AnySpecifier, EmptySpecifier)):
                from .c06 import _known_obj

                if harness.KNOWN_ENABLED and (_known_obj(x) or _known_obj(y)):
                    acc.excluded_known["S4a"] += 1
                else:
                    # ... and through their text view (what to_specifierset(), from_specifier and lock files consume):
                    # the texts of equal objects must denote one set (a text that does not parse is C06's business)
                    try:
                        tx, ty = parse_version_specifier(str(x)), parse_version_specifier(str(y))
                    except Exception:  # noqa: BLE001
                        tx = ty = None
                    if tx is not None:
                        acc.oracle_evaluations += 1
                        if meaning(tx) != meaning(ty):
                            acc.fail(kind, f"spec:equal-but-text-views-differ:{type(x).__name__}x{type(y).__name__}", case, expected="str(x) and str(y) denote the same set", got={"x": ri, "y": rj, "str(x)": str(x), "str(y)": str(y)})
                    for v in _final_probes(x, y):
                        acc.oracle_evaluations += 1
                        try:
                            got = ((v in x), x.contains(v), (v in y), y.contains(v))
                        except Exception as e:  # noqa: BLE001
                            acc.fail(kind, f"spec:membership-raises:{type(e).__name__}", case, expected="a truth value", got={"x": ri, "y": rj, "v": v})
                            break
                        if len(set(got)) != 1:
                            acc.fail(kind, f"spec:equal-but-membership-differs:{type(x).__name__}x{type(y).__name__}", case, expected="v in x == v in y", got={"x": ri, "y": rj, "v": v, "in x / x.contains / in y / y.contains": got})
                            break
            # equal => same meaning themselves
            if meaning(x) != meaning(y) and not (x.is_any() and y.is_any()):
                acc.fail(kind, f"spec:equal-but-different-meaning:{type(x).__name__}x{type(y).__name__}", case, expected="same set", got={"x": ri, "y": rj})
    if triples and shard == 0:
        for i, j, k in itertools.product(range(n), repeat=3):
            if eqm[i][j] and eqm[j][k] and not eqm[i][k]:
                acc.fail(kind, "spec:not-transitive", case, expected="x==y and y==z => x==z", got=[pool[i][0], pool[j][0], pool[k][0]])


def tasks(tier, seed):
    t = [(MOD, "fixed", (i, 8)) for i in range(8)]
    n = 640 if tier == "quick" else 9600
    shards = 8 if tier == "quick" else 32
    t += [(MOD, "hyp", (n // shards, seed * 1_000_003 + i, tier)) for i in range(shards)]
    try:
        from . import c13m

        t += c13m.tasks(tier, seed)
    except ImportError:
        pass
    return t


def fixed(acc, shard, nshards):
    mod = sys.modules[MOD]
    harness.process(mod, acc, "specpool-fixed", {"pool": "fixed", "shard": [shard, nshards]}, "spec-fixed-pool")
    acc.exhaustive_layers.add("spec-fixed-pool")


@st.composite
def pool_strategy(draw):
    """5 objects: two independent ones, plus differently-built copies of them."""
    base = draw(st.lists(versions.spec_expr_mixed(max_sets=2, max_leaves=2), min_size=2, max_size=3))
    items = []
    for tr in base:
        items.append(["tree", tr])
        how = draw(st.sampled_from(["reparse", "cells", "double-not", "and-any", "or-empty", "str-filled"]))
        items.append([how, tr])
    return {"items": items}


def hyp(acc, n, seed, tier):
    mod = sys.modules[MOD]
    harness.run_hypothesis(acc, pool_strategy(), lambda c: harness.process(mod, acc, "specpool", c, "spec-hyp-pools"), n, seed)


def _build_item(how, tr):
    o = specops.eval_tree(tr, [])
    if how == "tree":
        return o
    if how == "reparse":
        try:
            return parse_version_specifier(str(o))
        except Exception:  # noqa: BLE001  (C06's business)
            return o
    if how == "cells":
        from ..specmodel import build

        bs = bounds(o)
        return build(cellmask(o, bs), bs, universal="any")
    if how == "double-not":
        return ~~o
    if how == "and-any":
        return AnySpecifier() & o
    if how == "or-empty":
        return o | EmptySpecifier()
    if how == "str-filled":
        try:
            str(o)
        except Exception:  # noqa: BLE001
            pass
        return o
    raise harness.HarnessError(how)


def evaluate(kind, case, acc):
    if kind.startswith("marker"):
        from . import c13m

        return c13m.evaluate(kind, case, acc)
    if kind == "specpool-fixed":
        pool = [(r, f()) for r, f in fixed_pool()]
        if "only" in case:
            pool = [p for p in pool if p[0] in case["only"]]
        sh, nsh = case.get("shard", [0, 1])
        check_pool(acc, kind, case, pool, shard=sh, nshards=nsh)
        acc.sample({"pool_size": len(pool), "recipes": [r for r, _ in pool][:12]}, "spec-fixed-pool")
        return
    try:
        pool = [(f"{how}:{harness.jkey(tr)}", _build_item(how, tr)) for how, tr in case["items"]]
    except specops.LeafError as e:
        acc.discarded[f"leaf-does-not-parse:{e}"] += 1
        return
    check_pool(acc, kind, case, pool)
    acc.sample({"items": [[how, brief(o)] for (how, _), (_, o) in zip(case["items"], pool)]}, "spec-hyp-pools")


def candidates(kind, case):
    if kind.startswith("marker"):
        from . import c13m

        yield from c13m.candidates(kind, case)
        return
    if kind == "specpool-fixed":
        names = case.get("only") or [r for r, _ in fixed_pool()]
        if len(names) > 2:
            half = len(names) // 2
            yield {"pool": "fixed", "only": names[:half]}
            yield {"pool": "fixed", "only": names[half:]}
            for i in range(len(names)):
                yield {"pool": "fixed", "only": names[:i] + names[i + 1 :]}
        elif "shard" in case:
            yield {"pool": "fixed", "only": names}
        return
    items = case["items"]
    for i in range(len(items)):
        if len(items) > 2:
            yield {"items": items[:i] + items[i + 1 :]}
    for i, (how, tr) in enumerate(items):
        for s in specops.tree_shrinks(tr):
            yield {"items": items[:i] + [[how, s]] + items[i + 1 :]}
