"""C13 (marker family) - equality is an equivalence compatible with hashing; equal markers are interchangeable."""

from __future__ import annotations

import itertools
import sys

from hypothesis import strategies as st

from dep_logic.markers import AnyMarker, EmptyMarker, parse_marker

from .. import harness
from .. import markerops as O
from .. import markers as M

MOD = "vpcheck.checks.c13"

TEXTS = [
    '"linux" in sys_platform', 'sys_platform in "linux"', '"linux" not in sys_platform', 'sys_platform not in "linux"',
    '"3.8" <= python_version', 'python_version >= "3.8"', "python_version >= '3.8'", 'python_version >= "3.8.0"',
    'python_full_version >= "3.8"', 'python_full_version >= "3.8.0"',
    '"linux" == sys_platform', 'sys_platform == "linux"', 'sys_platform == "win32"', 'sys_platform != "linux"', '"linux" != sys_platform',
    'sys_platform == "linux" or sys_platform == "win32"', 'sys_platform == "win32" or sys_platform == "linux"',
    'sys_platform != "linux" and sys_platform != "win32"', 'sys_platform != "win32" and sys_platform != "linux"',
    # groups one of which is a proper prefix / suffix / sub-list of the other
    'sys_platform == "linux" or sys_platform == "win32" or sys_platform == "darwin"', 'sys_platform == "win32" or sys_platform == "darwin"',
    'sys_platform != "linux" and sys_platform != "win32" and sys_platform != "darwin"', 'sys_platform != "linux" and sys_platform != "darwin"',
    'os_name == "nt" and sys_platform == "win32"', 'sys_platform == "win32" and os_name == "nt"',
    'os_name == "nt" or sys_platform == "win32"', 'sys_platform == "win32" or os_name == "nt"',
    "", "<empty>", "*",
    'python_version >= "3.8" and python_version < "3.10"', 'python_version < "3.10" and python_version >= "3.8"',
    'python_full_version >= "3.8.0" and python_full_version < "3.10.0"',
    'extra == "Foo"', 'extra == "foo"', '"foo" == extra', 'extra == "foo-bar"', 'extra == "Foo_Bar"', 'extra != "foo"',
    'python_version in "3.8, 3.9"', 'python_version in "3.8,3.9"', 'python_version == "3.8" or python_version == "3.9"',
    'python_version == "3.8.*"', 'python_version == "3.8"', 'python_full_version == "3.8.*"', 'python_version ~= "3.8"', 'python_version >= "3.8" and python_version < "4"',
    '(os_name == "nt" or sys_platform == "win32") and python_version >= "3.8"', 'python_version >= "3.8" and (sys_platform == "win32" or os_name == "nt")',
    'os_name == "nt" and python_version >= "3.8" or sys_platform == "win32" and python_version >= "3.8"',
    'platform_release >= "5.4"', 'platform_release >= "5.4.0"', '"5.4" <= platform_release',
]


def fixed_pool():
    """(recipe, marker). Includes the same atom as distinct objects with / without the lazily
    computed specifier view, results of operators, and re-parsed renderings."""
    pool = []
    for t in TEXTS:
        harness.reset_caches()
        pool.append((f"P({t!r})", parse_marker(t)))
    for t in ['python_version >= "3.8"', 'sys_platform == "linux"', '"linux" in sys_platform', 'extra == "foo"']:
        harness.reset_caches()
        m = parse_marker(t)
        m.specifier  # fills the per-object cache
        pool.append((f"P({t!r})+specifier-view-filled", m))
        harness.reset_caches()
        pool.append((f"P({t!r}) fresh copy", parse_marker(t)))
    harness.reset_caches()
    P = parse_marker
    pool.append(("Empty()", EmptyMarker()))
    pool.append(("Any()", AnyMarker()))
    pool.append(('P(sys==linux)|P(sys==win32)', P('sys_platform == "linux"') | P('sys_platform == "win32"')))
    pool.append(('P(sys==win32)|P(sys==linux)', P('sys_platform == "win32"') | P('sys_platform == "linux"')))
    pool.append(('P(sys!=linux)&P(sys!=win32)', P('sys_platform != "linux"') & P('sys_platform != "win32"')))
    pool.append(('P(pv>=3.8)&P(pv<3.10)', P('python_version >= "3.8"') & P('python_version < "3.10"')))
    pool.append(('P(pv<3.10)&P(pv>=3.8)', P('python_version < "3.10"') & P('python_version >= "3.8"')))
    pool.append(('P(pv>=3.8)&P(pfv<3.10.0)', P('python_version >= "3.8"') & P('python_full_version < "3.10.0"')))
    pool.append(('P(os==nt)&P(sys==win32)', P('os_name == "nt"') & P('sys_platform == "win32"')))
    pool.append(('P(sys==win32)&P(os==nt)', P('sys_platform == "win32"') & P('os_name == "nt"')))
    pool.append(('P(os==nt)|P(sys==win32)', P('os_name == "nt"') | P('sys_platform == "win32"')))
    pool.append(('P(sys==linux)&P(sys==win32)', P('sys_platform == "linux"') & P('sys_platform == "win32"')))
    pool.append(('P(sys==linux)|P(sys!=linux)', P('sys_platform == "linux"') | P('sys_platform != "linux"')))
    pool.append(("reparse(str(P(pv>=3.8)&P(pv<3.10)))", P(str(P('python_version >= "3.8"') & P('python_version < "3.10"')))))
    return pool


def rows_for(pool_atoms_texts):
    atoms = [
        {"var": "sys_platform", "op": "==", "val": "linux", "rev": False}, {"var": "sys_platform", "op": "==", "val": "win32", "rev": False},
        {"var": "sys_platform", "op": "in", "val": "linux", "rev": True}, {"var": "os_name", "op": "==", "val": "nt", "rev": False},
        {"var": "python_full_version", "op": ">=", "val": "3.8.0", "rev": False}, {"var": "python_full_version", "op": "<", "val": "3.10.0", "rev": False},
        {"var": "extra", "op": "==", "val": "Foo_Bar", "rev": False}, {"var": "platform_release", "op": ">=", "val": "5.4", "rev": False},
    ]
    rows = M.environments(atoms, limit=400, extra_as_set=True, salt=3)
    return rows


def tasks(tier, seed):
    t = [("vpcheck.checks.c13m", "fixed", (i, 16)) for i in range(16)]
    n = 480 if tier == "quick" else 9600
    shards = 32 if tier == "quick" else 96
    t += [("vpcheck.checks.c13m", "hyp", (n // shards, seed * 1_000_003 + 9000 + i, tier)) for i in range(shards)]
    return t


def fixed(acc, shard, nshards):
    mod = sys.modules[MOD]
    acc.exhaustive_layers.add("marker-fixed-pool")
    harness.process(mod, acc, "markerpool-fixed", {"pool": "fixed", "shard": [shard, nshards]}, "marker-fixed-pool", timeout_s=120.0)


@st.composite
def pool_strategy(draw):
    base = draw(st.lists(O.operand(max_leaves=2, depth=False), min_size=2, max_size=3))
    items = []
    for e in base:
        items.append(["expr", e])
        items.append([draw(st.sampled_from(["reparse", "mirror", "restyle", "and-any", "or-empty", "view-filled", "self-and", "self-or"])), e])
    return {"items": items}


def hyp(acc, n, seed, tier):
    mod = sys.modules[MOD]
    harness.run_hypothesis(acc, pool_strategy(), lambda c: harness.process(mod, acc, "markerpool", c, "marker-hyp-pools", timeout_s=4.0 if tier == "quick" else 8.0), n, seed)


def _mirror(expr, how):
    """Same condition, built differently: flip operand order of comparison atoms / change spelling."""
    tag = expr[0]
    if tag == "parse":
        return ["parse", _mirror_tree(expr[1], how)]
    if tag in ("empty", "any"):
        return expr
    return [tag, _mirror(expr[1], how), _mirror(expr[2], how)]


def _mirror_tree(tree, how):
    if tree[0] == "atom":
        a = dict(tree[1])
        if how == "mirror" and a["op"] in M.CMP_OPS and not a["val"].endswith(".*"):
            a["rev"] = not a["rev"]
        if how == "restyle":
            a["style"] = (a.get("style", 0) + 3) % 6
        return ["atom", a]
    return [tree[0], [_mirror_tree(c, how) for c in tree[1]]]


def _build(how, e):
    if how == "expr":
        return O.dep_eval(e)
    if how in ("mirror", "restyle"):
        return O.dep_eval(_mirror(e, how))
    m = O.dep_eval(e)
    if how == "reparse":
        return parse_marker(str(m))
    if how == "and-any":
        return AnyMarker() & m
    if how == "or-empty":
        return m | EmptyMarker()
    if how == "self-and":
        return m & O.dep_eval(e)
    if how == "self-or":
        return m | O.dep_eval(e)
    if how == "view-filled":
        for x in _singles(m):
            try:
                getattr(x, "specifier", None)
            except ValueError:
                pass  # a literal that is not a version has no specifier view; nothing to fill
        return m
    raise harness.HarnessError(how)


def _singles(m):
    ch = getattr(m, "markers", None)
    if ch is None:
        return [m]
    return [s for c in ch for s in _singles(c)]


def check_pool(acc, kind, case, pool, rows, shard=0, nshards=1):
    n = len(pool)
    tabs = [tuple(O.table(m, rows)) for _, m in pool]
    eqm = [[bool(pool[i][1] == pool[j][1]) for j in range(n)] for i in range(n)]
    acc.oracle_evaluations += n * n
    for i in range(n):
        if not eqm[i][i]:
            acc.fail(kind, "marker:not-reflexive", case, expected="x == x", got=pool[i][0])
    for i, j in itertools.combinations(range(n), 2):
        if (i * n + j) % nshards != shard:
            continue
        (ri, x), (rj, y) = pool[i], pool[j]
        if eqm[i][j] != eqm[j][i]:
            acc.fail(kind, f"marker:asymmetric:{O.shape(x)}x{O.shape(y)}", case, expected="x == y <=> y == x", got={"x": ri, "y": rj})
        if (x != y) is eqm[i][j]:
            acc.fail(kind, "marker:ne-inconsistent", case, expected="(x != y) == not (x == y)", got={"x": ri, "y": rj})
        if not eqm[i][j]:
            continue
        acc.label("marker:equal-pair")
        if x is not y and ri != rj:
            acc.nontriv(["marker", ri, rj])
        if hash(x) != hash(y):
            acc.fail(kind, f"marker:equal-but-hash-differs:{O.shape(x)}x{O.shape(y)}", case, expected="hash(x) == hash(y)", got={"x": ri, "y": rj, "str(x)": str(x), "str(y)": str(y)})
        elif len({x, y}) != 1:
            acc.fail(kind, "marker:equal-but-two-set-entries", case, expected="len({x,y}) == 1", got={"x": ri, "y": rj})
        if tabs[i] != tabs[j]:
            k = next(k for k in range(len(rows)) if tabs[i][k] != tabs[j][k])
            acc.fail(kind, f"marker:equal-but-different-meaning:{O.shape(x)}x{O.shape(y)}", case, expected={"env": M.env_json(rows[k])}, got={"x": ri, "y": rj, "str(x)": str(x), "str(y)": str(y)})
            continue
        for rk, a in pool:
            for opn, f in (("and", lambda p, q: p & q), ("or", lambda p, q: p | q), ("rand", lambda p, q: q & p), ("ror", lambda p, q: q | p)):
                harness.reset_caches()
                r1 = f(a, x)
                harness.reset_caches()
                r2 = f(a, y)
                acc.oracle_evaluations += 2 * len(rows)
                t1, t2 = O.table(r1, rows), O.table(r2, rows)
                if t1 != t2:
                    k = next(k for k in range(len(rows)) if t1[k] != t2[k])
                    acc.fail(kind, f"marker:not-interchangeable:{opn}:{O.shape(x)}x{O.shape(y)}", case, expected={"env": M.env_json(rows[k]), "a op x": t1[k]}, got={"a": rk, "x": ri, "y": rj, "a op x": str(r1), "a op y": str(r2)})
    if shard == 0:
        for i, j, k in itertools.product(range(n), repeat=3):
            if eqm[i][j] and eqm[j][k] and not eqm[i][k]:
                acc.fail(kind, "marker:not-transitive", case, expected="x==y and y==z => x==z", got=[pool[i][0], pool[j][0], pool[k][0]])


def evaluate(kind, case, acc):
    if kind == "markerpool-fixed":
        pool = fixed_pool()
        if "only" in case:
            pool = [p for p in pool if p[0] in case["only"]]
        sh, nsh = case.get("shard", [0, 1])
        check_pool(acc, kind, case, pool, rows_for(None), shard=sh, nshards=nsh)
        acc.sample({"pool_size": len(pool), "recipes": [r for r, _ in pool][:10]}, "marker-fixed-pool")
        return
    atoms = [x for _, e in case["items"] for x in O.expr_atoms(e)]
    rows = M.environments(atoms, limit=120, extra_as_set=True, salt=len(atoms))
    if harness.KNOWN_ENABLED:
        rows = [r for r in rows if not M.m4_row(atoms, r)]
    pool = []
    for how, e in case["items"]:
        harness.reset_caches()
        pool.append((f"{how}:{O.expr_text(e)}", _build(how, e)))
    check_pool(acc, kind, case, pool, rows)
    acc.sample({"items": [[how, str(m)] for (how, _), (_, m) in zip(case["items"], pool)]}, "marker-hyp-pools")


def candidates(kind, case):
    if kind == "markerpool-fixed":
        names = case.get("only") or [r for r, _ in fixed_pool()]
        if len(names) > 2:
            half = len(names) // 2
            yield {"pool": "fixed", "only": names[:half]}
            yield {"pool": "fixed", "only": names[half:]}
            for i in range(len(names)):
                yield {"pool": "fixed", "only": names[:i] + names[i + 1 :]}
        elif "shard" in case:
            yield {"pool": "fixed", "only": names}
        return
    items = case["items"]
    if len(items) > 2:
        for i in range(len(items)):
            yield {"items": items[:i] + items[i + 1 :]}
    for i, (how, e) in enumerate(items):
        for s in O.expr_shrinks(e):
            yield {"items": items[:i] + [[how, s]] + items[i + 1 :]}
