"""C03 - parse_marker(text).evaluate(env) agrees with packaging's Marker(text).evaluate(env).

Differential against the installed packaging release on marker *texts* over the well-defined atom
classes (both operand orders, nested and/or with parentheses, quote/blank variation, legacy dotted
names), environments with a string `extra`; lock_file context with set-valued extras /
dependency_groups.  A case on which the reference itself raises is outside the domain (discarded,
counted).
  L1 exhaustive: every single atom (operator x literal x operand order) x its value grid;
  L2 Hypothesis: texts.
"""

from __future__ import annotations

import sys

from hypothesis import strategies as st
from packaging.markers import Marker as PkgMarker

from dep_logic.markers import parse_marker

from .. import harness
from .. import markerops as O
from .. import markers as M
from . import c02

PROP = "C03"
CASE_TIMEOUT = 8.0
MOD = __name__
META = {
    "rule": "L1: every single atom of the pools (all operators, literals, both operand orders; string, version, list, extra, "
    "extras/dependency_groups atoms) on its whole value grid (exhaustive); L2: Hypothesis marker texts with nested "
    "and/or, parentheses, quote/blank variation and legacy dotted names. Non-trivial = text with >=2 atoms on the same "
    "variable (or the two Python variables), or a literal-on-the-left atom, whose truth table is not constant; distinct "
    "by text.",
    "assumptions": [
        "reference = packaging (installed release) Marker.evaluate; cases where it raises are discarded",
        "environments: final interpreters with python_version = major.minor, valid platform_release versions, string extra",
    ],
}

LOCK = ["A6", "A6", "A1", "A3"]


def tasks(tier, seed):
    global CASE_TIMEOUT
    CASE_TIMEOUT = 2.5 if tier == "quick" else 6.0
    n = 3200 if tier == "quick" else 64000
    shards = 32 if tier == "quick" else 128
    t = [(MOD, "hyp", (n // shards, seed * 1_000_003 + i, tier)) for i in range(shards)]
    t += [(MOD, "singles", (i, 8, tier)) for i in range(8)]
    t += [(MOD, "pairs", (i, 32, tier)) for i in range(32)]
    t += [(MOD, "groups", (i, 8, tier)) for i in range(8)]
    return t


def _expr_tree(e):
    """Operand expression of c02's tables -> one marker tree (the whole thing is written as ONE text here)."""
    if e[0] == "parse":
        return e[1]
    return [e[0], [_expr_tree(e[1]), _expr_tree(e[2])]]


def groups(acc, shard, nshards, tier):
    import itertools

    """==-groups / !=-groups (and single atoms) on one string variable, every ordered pair joined by and / or in one
    text, parenthesised: the group x group rules are only reached with four or more atoms on one variable."""
    acc.exhaustive_layers.add("L1-group-pair-texts")
    mod = sys.modules[MOD]
    i = 0
    for case in itertools.chain(c02.table_cases("str-group-pairs", tier), c02.table_cases("factored-pairs", tier), c02.table_cases("shared-child-unions", tier)):
        if case["b"][0] in ("empty", "any") or case["a"][0] in ("empty", "any"):
            # one real operand only: its own text
            e = case["a"] if case["b"][0] in ("empty", "any") else case["b"]
            if e[0] not in ("empty", "any"):
                i += 1
                if i % nshards == shard:
                    harness.process(mod, acc, "text", {"tree": _expr_tree(e), "context": "metadata"}, "L1-group-pair-texts")
            continue
        for op in ("and", "or"):
            i += 1
            if i % nshards == shard:
                harness.process(mod, acc, "text", {"tree": [op, [_expr_tree(case["a"]), _expr_tree(case["b"])]], "context": "metadata"}, "L1-group-pair-texts")


def pairs(acc, shard, nshards, tier):
    """Two atoms on the Python-version variables (resp. one string variable) joined by and / or in one text:
    the parse-time merge of every atom pair, judged by packaging."""
    acc.exhaustive_layers.add("L1-atom-pair-texts")
    mod = sys.modules[MOD]
    import itertools

    A = c02.py_atoms(tier)
    S = c02.str_atoms(tier)
    i = 0
    for pool in (A, S):
        for x, y in itertools.product(pool, repeat=2):
            for op in ("and", "or"):
                i += 1
                if i % nshards == shard:
                    harness.process(mod, acc, "text", {"tree": [op, [["atom", x], ["atom", y]]], "context": "metadata"}, "L1-atom-pair-texts")


def single_atoms(tier):
    out = list(c02.py_atoms("thorough")) + c02.str_atoms() + c02.extra_atoms() + c02.rel_atoms()
    for var, lits in M.STR_VARS.items():
        for lit in lits[:3]:
            for op in ("==", "!="):
                for rev in (False, True):
                    out.append({"var": var, "op": op, "val": lit, "rev": rev, "style": 6 if rev else 0})
    for var, lits in M.NUMERIC_LITS.items():
        for lit in lits:
            for op in ("==", "!="):
                out.append({"var": var, "op": op, "val": lit, "rev": False, "style": 0})
    for lst in ["2.7 3.4", "3.8 3.9 3.10"]:
        for op in ("in", "not in"):
            out.append({"var": "python_version", "op": op, "val": lst, "rev": False, "style": 0})
    for var in ("extras", "dependency_groups"):
        for n in ("foo", "Foo_Bar", "bar"):
            for op in ("in", "not in"):
                out.append({"var": var, "op": op, "val": n, "rev": True, "style": 0})
    return out


def singles(acc, shard, nshards, tier):
    acc.exhaustive_layers.add("L1-single-atoms")
    mod = sys.modules[MOD]
    for i, a in enumerate(single_atoms(tier)):
        if i % nshards == shard:
            ctx = "lock_file" if a["var"] in ("extras", "dependency_groups") else "metadata"
            harness.process(mod, acc, "text", {"tree": ["atom", a], "context": ctx}, "L1-single-atoms")


def strategy(tier):
    ml = 4 if tier == "quick" else 6
    meta = M.related_tree(O.WITH_LOW_WEIGHT, ml).map(lambda t: {"tree": t, "context": "metadata"})
    lock = M.related_tree(LOCK, 3).map(lambda t: {"tree": t, "context": "lock_file"})
    return st.one_of(meta, meta, meta, meta, meta, lock)


def hyp(acc, n, seed, tier):
    mod = sys.modules[MOD]
    harness.run_hypothesis(acc, strategy(tier), lambda c: harness.process(mod, acc, "text", c, "L2-hyp"), n, seed)


def is_known(kind, case):
    # S4a through markers: V >= lo merged with V < "X.postN" renders as ~=lo (see known_findings.json)
    return "S4a-post-release-upper-bound" if O.s4a_case(case) else None


def _invalid_defaults():
    from packaging.markers import default_environment
    from packaging.version import InvalidVersion, Version

    bad = set()
    for k in M.VERSION_VARS:
        try:
            Version(default_environment()[k])
        except InvalidVersion:
            bad.add(k)
    return bad


_INVALID_DEFAULTS = _invalid_defaults()


def evaluate(kind, case, acc):
    tree, ctx = case["tree"], case.get("context", "metadata")
    text = M.render(tree)
    atoms = M.atoms_of(tree)
    rows = M.environments(atoms, limit=320, extra_as_set=False, salt=len(text))
    if harness.KNOWN_ENABLED and len(atoms) > 1:
        # M4 (known finding): list atoms are merged by list membership but evaluated by substring
        kept = [r for r in rows if not M.m4_row(atoms, r)]
        if len(kept) != len(rows):
            acc.excluded_known["M4-rows"] += len(rows) - len(kept)
        rows = kept
    try:
        ref_marker = PkgMarker(text)
    except Exception as e:  # noqa: BLE001
        raise harness.HarnessError(f"generator produced a text packaging rejects: {text!r}: {e}")
    m = parse_marker(text)
    got_t, ref_t = [], []
    shown = None
    for env in rows:
        try:
            ref = bool(ref_marker.evaluate(env, context=ctx))
        except Exception as e:  # noqa: BLE001  reference undefined here: outside the domain
            acc.discarded[f"reference-raises:{type(e).__name__}"] += 1
            continue
        got = bool(m.evaluate(env, context=ctx))
        acc.oracle_evaluations += 1
        got_t.append(got)
        ref_t.append(ref)
        if got != ref and shown is None:
            shown = (env, ref, got)
    fams = [M._family(a["var"]) for a in atoms]
    acc.label(f"context:{ctx}", f"atoms:{min(len(atoms), 5)}")
    if len(set(ref_t)) == 2 and (len(fams) != len(set(fams)) or any(a["rev"] for a in atoms)):
        acc.nontriv(text)
        acc.sample({"text": text, "context": ctx, "parsed_as": str(m), "rows": len(rows), "true_rows": sum(ref_t)}, "texts")
    # the default environment and the context defaults: no environment at all, and one with only part of the
    # mentioned variables (both libraries then fall back on the running interpreter and on the context's defaults)
    # (python_version and python_full_version stay together: an environment in which they disagree is outside
    # the quantifier, and the running interpreter would supply the missing one)
    partial = None
    if rows:
        others = [k for k in rows[0] if k not in ("python_version", "python_full_version")]
        if others:
            partial = {k: v for k, v in rows[0].items() if k != others[0]}
    for idx, envv in enumerate((None, {}, partial)):
        if idx == 2 and partial is None:
            continue
        # a version variable that falls back on this machine's value must hold a valid version there (the kernel
        # release of the sandbox does not): otherwise the environment is outside the quantifier
        if any(a["var"] in _INVALID_DEFAULTS and a["var"] not in (envv or {}) for a in atoms):
            acc.discarded["default environment holds a non-version value for a mentioned version variable"] += 1
            continue
        try:
            ref = bool(ref_marker.evaluate(envv, context=ctx)) if envv is not None else bool(ref_marker.evaluate(context=ctx))
        except Exception:  # noqa: BLE001
            continue
        got = bool(m.evaluate(envv, context=ctx)) if envv is not None else bool(m.evaluate(context=ctx))
        acc.oracle_evaluations += 1
        acc.label("default-environment-row")
        if got != ref:
            acc.fail(kind, f"evaluate-differs-from-packaging:default-environment|{O.classes_of(atoms)}", case, expected={"text": text, "env": None if envv is None else M.env_json(envv), "context": ctx, "packaging": ref}, got={"dep_logic": got, "parsed_as": str(m)})
            break
    if shown:
        env, ref, got = shown
        n_bad = sum(1 for g, r in zip(got_t, ref_t) if g != r)
        acc.fail(kind, f"evaluate-differs-from-packaging|{O.classes_of(atoms)}", case, expected={"text": text, "env": M.env_json(env), "packaging": ref}, got={"dep_logic": got, "parsed_as": str(m), "rows_differing": n_bad, "rows": len(rows)})


def candidates(kind, case):
    for s in M.tree_shrinks(case["tree"]):
        yield {**case, "tree": s}
