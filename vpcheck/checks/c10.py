"""C10 - memoisation is transparent: results do not depend on what was computed before.

Hypothesis RuleBasedStateMachine.  State: a list of results, each with its *recipe* (expression tree
over source texts).  Rules: parse(text), and_(i, j), or_(i, j), reparse(i) (feeds str(result) back into
parse_marker), permuted(i) (same condition, every and/or and operand pair written in the opposite order), variant(i) (re-parses the same source with the atoms' operand order flipped, '3.10' <->
'3.10.0', other quotes/blanks - equal-but-differently-built operands).  Texts come from a small atom
pool so that cache keys collide.
Oracle: every step's warm observation (text, truth table, is_any/is_empty), made with shared caches as
the history ran, must equal the cold one: all caches cleared, recipe replayed from source text with fresh
objects.  Thorough additionally recomputes probes in a truly fresh interpreter (subprocess) to validate
that "cache_clear + fresh objects" is equivalent to a fresh process.
"""

from __future__ import annotations

import json
import os
import subprocess
import sys

import hypothesis
from hypothesis import HealthCheck, Phase, settings
from hypothesis import strategies as st
from hypothesis.stateful import RuleBasedStateMachine, initialize, precondition, rule, run_state_machine_as_test

from dep_logic.markers import parse_marker

from .. import harness
from .. import markers as M

PROP = "C10"
CASE_TIMEOUT = 30.0
MOD = __name__
META = {
    "rule": "Hypothesis rule-based state machine: histories of <=30 (quick) / <=50 (thorough) operations parse / & / | / reparse / "
    "variant over 37 base atoms x 4 spellings; every step is a probe compared warm vs cold. Non-trivial = a probe whose "
    "history contains, before it, an operation using one of the probe's atoms in a different spelling (equal but differently "
    "built operand); distinct by (history prefix, probe).",
    "assumptions": [
        "cold = every functools cache of dep_logic cleared + fresh objects; validated against a fresh interpreter in the thorough tier",
        "single thread; the history layers run under PYTHONHASHSEED=0, the hash-seed layer compares fresh interpreters with seeds 0..n",
    ],
}

BASE = [
    ("python_version", ">=", "3.8"), ("python_version", "<", "3.10"), ("python_full_version", ">=", "3.8.0"), ("python_full_version", "<", "3.9.2"),
    ("python_version", "==", "3.9"), ("python_version", "!=", "3.8"), ("sys_platform", "==", "linux"), ("sys_platform", "!=", "win32"),
    ("sys_platform", "==", "win32"), ("os_name", "==", "nt"), ("os_name", "!=", "nt"), ("extra", "==", "foo-bar"), ("extra", "!=", "foo-bar"),
    ("platform_release", ">=", "5.4"), ("sys_platform", "in", "linux"), ("python_full_version", "~=", "3.8.2"),
    # bounds one ~= step apart and X.Y / X.Y.0 twins: the rendering heuristics look at how a bound is *spelled*
    ("python_full_version", "<", "4.0"), ("python_version", ">=", "3.10"), ("python_full_version", "<=", "3.10.0"), ("python_full_version", ">", "3.10.0"),
    ("python_version", "<", "4.0"), ("python_full_version", ">=", "3.10"),
    # a hole that can be written as a wildcard, and a range that can be written as ~=
    ("python_full_version", "<", "3.8"), ("python_full_version", ">=", "3.9"), ("python_full_version", "!=", "3.8.*"), ("python_version", "<", "3.8"),
    ("python_version", "~=", "3.8"), ("python_version", "<", "4"),
    ("python_full_version", ">", "3.10"),
    # epoch literals: valid PEP 440, take their own path through the python_version translation
    ("python_version", ">=", "1!3.8"), ("python_version", "!=", "1!3.9"),
    # < V or > V merges to != V: a computed union whose text depends on how V was spelled
    ("python_version", ">", "3.10"), ("platform_release", "<", "5.4"), ("platform_release", ">", "5.4"),
    # ~= reads the number of segments: ~=3.8 is [3.8, 4.0), ~=3.8.0 is [3.8.0, 3.9.0) - equal versions, different atoms
    ("python_version", "~=", "3.8.0"),
    # blanks inside the quotes: not part of the version, but part of the text
    ("python_version", ">=", " 3.8"), ("python_full_version", "<", "3.9.1 "),
]
REFL = M.REFLECT
# atom pools of one history: related atoms (same variable, bounds one ~= step apart, X.Y / X.Y.0 twins) so that
# merges produce equal-but-differently-spelled results and cache keys collide
FAMILIES = [
    [21, 16, 17, 20], [17, 18, 19, 16], [0, 1, 2, 3], [2, 3, 15, 16], [17, 21, 16], [0, 4, 5, 1], [19, 18, 21, 20, 16],
    [6, 7, 8, 14], [9, 10, 6, 8], [11, 12, 6], [6, 8, 9, 0], [13, 0, 6],
    [22, 23, 24, 25], [26, 27, 0, 25], [22, 23, 25, 0], [24, 22, 23, 1],
    [9, 28, 7, 5], [9, 21, 7, 4], [6, 2, 10, 5],
    [29, 30, 23, 2],
    [1, 31, 17, 5], [32, 33, 13],
    [26, 34, 2, 23],
    [35, 1, 9, 36],
]


def render_atom(base_id: int, variant: int) -> str:
    v, op, val = BASE[base_id]
    special = op == "~=" or val.endswith(".*")
    if variant == 1 and not special:
        return f'"{val}" {REFL[op]} {v}'
    if variant == 2 and not special:
        if v == "python_full_version" and val.count(".") < 2:
            return f'{v} {op} "{val}.0"'
        if v == "python_version" and val.count(".") == 1:
            return f'{v} {op} "{val}.0"'  # equal version, other spelling
        if v == "extra":
            return f'{v} {op} "{val.replace("-", "_").title()}"'
        return f"{v} {op} '{val}'"
    if variant == 3 and op not in ("in", "not in"):
        return f"{v}{op}'{val}'"
    return f'{v} {op} "{val}"'


def render_tree(t, variant_shift=0, top=True) -> str:
    if t[0] == "atom":
        return render_atom(t[1], (t[2] + variant_shift) % 4)
    s = f" {t[0]} ".join(render_tree(c, variant_shift, False) for c in t[1])
    return s if top else f"({s})"


def tree_atoms(t):
    if t[0] == "atom":
        return [(t[1], t[2])]
    return [a for c in t[1] for a in tree_atoms(c)]


_atom = st.tuples(st.just("atom"), st.sampled_from(range(len(BASE))), st.sampled_from(range(4))).map(list)
_tree = st.recursive(_atom, lambda ch: st.tuples(st.sampled_from(["and", "or"]), st.lists(ch, min_size=2, max_size=3)).map(list), max_leaves=3)

ENVS = [
    {"sys_platform": s, "os_name": o, "python_version": ".".join(f.split(".")[:2]), "python_full_version": f, "extra": e, "platform_release": r}
    for s in ("linux", "win32", "linux2")
    for o in ("nt", "posix")
    for f in ("3.7.0", "3.8.0", "3.8.2", "3.8.10", "3.9.1", "3.9.2", "3.10.0")
    for e in (set(), {"foo-bar"}, {"Foo_Bar", "x"})
    for r in ("5.4", "5.3")
]


def observe(m):
    return {"text": str(m), "table": "".join("1" if m.evaluate(e) else "0" for e in ENVS), "is_any": m.is_any(), "is_empty": m.is_empty(), "class": type(m).__name__}


# ---- recipes ------------------------------------------------------------------
# op = ["parse", tree] | ["and", i, j] | ["or", i, j] | ["reparse", i] | ["variant", i, shift]
def recipe_of(ops, k):
    op = ops[k]
    if op[0] == "parse":
        return ["parse", op[1], 0]
    if op[0] in ("and", "or"):
        return [op[0], recipe_of(ops, op[1]), recipe_of(ops, op[2])]
    if op[0] == "reparse":
        return ["reparse", recipe_of(ops, op[1])]
    if op[0] == "variant":
        return shift_recipe(recipe_of(ops, op[1]), op[2])
    if op[0] == "perm":
        return perm_recipe(recipe_of(ops, op[1]))
    raise harness.HarnessError(str(op))


def perm_tree(t):
    if t[0] == "atom":
        return t
    return [t[0], [perm_tree(c) for c in reversed(t[1])]]


def perm_recipe(r):
    """The same condition with every and/or written in the opposite order (commuted operands)."""
    if r[0] == "parse":
        return ["parse", perm_tree(r[1]), r[2]]
    if r[0] == "reparse":
        return ["reparse", perm_recipe(r[1])]
    return [r[0], perm_recipe(r[2]), perm_recipe(r[1])]


def shift_recipe(r, shift):
    if r[0] == "parse":
        return ["parse", r[1], (r[2] + shift) % 4]
    if r[0] == "reparse":
        return ["reparse", shift_recipe(r[1], shift)]
    return [r[0], shift_recipe(r[1], shift), shift_recipe(r[2], shift)]


def compute(recipe):
    if recipe[0] == "parse":
        return parse_marker(render_tree(recipe[1], recipe[2]))
    if recipe[0] == "reparse":
        return parse_marker(str(compute(recipe[1])))
    a, b = compute(recipe[1]), compute(recipe[2])
    return a & b if recipe[0] == "and" else a | b


def recipe_atoms(recipe):
    if recipe[0] == "parse":
        return [(b, (v + recipe[2]) % 4) for b, v in tree_atoms(recipe[1])]
    if recipe[0] == "reparse":
        return recipe_atoms(recipe[1])
    return recipe_atoms(recipe[1]) + recipe_atoms(recipe[2])


def apply_op(ops, results, op):
    """Warm execution of one operation given earlier results (objects)."""
    if op[0] == "parse":
        return parse_marker(render_tree(op[1]))
    if op[0] == "and":
        return results[op[1]] & results[op[2]]
    if op[0] == "or":
        return results[op[1]] | results[op[2]]
    if op[0] == "reparse":
        return parse_marker(str(results[op[1]]))
    if op[0] == "variant":
        return compute(shift_recipe(recipe_of(ops, op[1]), op[2]))
    if op[0] == "perm":
        return compute(perm_recipe(recipe_of(ops, op[1])))
    raise harness.HarnessError(str(op))


def cold(recipe):
    harness.reset_caches()
    return observe(compute(recipe))


def raised(e):
    """An operation that raises is an observation too: 'raises in a fresh process, returns a marker after some
    history' is history dependence (whether raising is right at all is C02's / C03's business)."""
    return {"text": f"<raises {type(e).__name__}>", "table": "", "is_any": None, "is_empty": None, "class": f"raises:{type(e).__name__}"}


def cold_with_object(recipe):
    harness.reset_caches()
    try:
        m = compute(recipe)
    except harness.HarnessError:
        raise
    except Exception as e:  # noqa: BLE001
        return raised(e), None
    return observe(m), m


def same_object(w, c) -> bool:
    """The warm and the cold result of one operation are 'the same result': equal objects with equal hashes (two
    results with the same text and class can still differ in state that == looks at; everything that is keyed on
    marker equality - dedup, the merge/cnf/dnf caches - would then treat them differently later on)."""
    try:
        return w == c and c == w and hash(w) == hash(c)
    except TypeError:
        return True


def diff_kind(w, c):
    if w["table"] != c["table"] or w["is_any"] != c["is_any"] or w["is_empty"] != c["is_empty"]:
        return "meaning"
    if w["text"] != c["text"]:
        return "text"
    if w["class"] != c["class"]:
        return "class"
    return None


class _Run:
    acc = None
    max_steps = 30


def make_machine(acc, max_steps):
    class History(RuleBasedStateMachine):
        def __init__(self):
            super().__init__()
            harness.reset_caches()
            self.pool = list(range(len(BASE)))
            self.ops = []
            self.results = []
            self.warm = []

        @initialize(pool=st.one_of(st.sampled_from(FAMILIES), st.sampled_from(FAMILIES), st.lists(st.sampled_from(range(len(BASE))), min_size=3, max_size=6, unique=True)))
        def choose_pool(self, pool):
            # a small atom pool per history, so that cache keys collide
            self.pool = pool

        def _do(self, op):
            self.ops.append(op)
            try:
                r = apply_op(self.ops, self.results, op)
            except harness.HarnessError:
                raise
            except Exception as e:  # noqa: BLE001
                # the operation raises after this history: judge it as a final probe (does it raise when run first,
                # too?) and go on without it
                ops = list(self.ops)
                self.ops.pop()
                harness.process(sys.modules[MOD], acc, "history", {"ops": ops, "warm": self.warm + [raised(e)], "_objs": self.results + [None]}, "machines", isolate=False)
                return
            self.results.append(r)
            self.warm.append(observe(r))

        @rule(data=st.data())
        def parse(self, data):
            atom = st.tuples(st.just("atom"), st.sampled_from(self.pool), st.sampled_from(range(4))).map(list)
            tree = st.recursive(atom, lambda ch: st.tuples(st.sampled_from(["and", "or"]), st.lists(ch, min_size=2, max_size=3)).map(list), max_leaves=3)
            self._do(["parse", data.draw(tree)])

        @precondition(lambda self: len(self.results) >= 1)
        @rule(data=st.data(), kind=st.sampled_from(["and", "or"]))
        def combine(self, data, kind):
            n = len(self.results)
            i = data.draw(st.integers(0, n - 1))
            j = data.draw(st.integers(0, n - 1))
            self._do([kind, i, j])

        @precondition(lambda self: len(self.results) >= 1)
        @rule(data=st.data())
        def reparse(self, data):
            self._do(["reparse", data.draw(st.integers(0, len(self.results) - 1))])

        @precondition(lambda self: len(self.results) >= 1)
        @rule(data=st.data(), shift=st.sampled_from([1, 2, 3]))
        def variant(self, data, shift):
            self._do(["variant", data.draw(st.integers(0, len(self.results) - 1)), shift])

        @precondition(lambda self: len(self.results) >= 1)
        @rule(data=st.data())
        def permuted(self, data):
            self._do(["perm", data.draw(st.integers(0, len(self.results) - 1))])

        def teardown(self):
            if not self.ops:
                return
            harness.process(sys.modules[MOD], acc, "history", {"ops": self.ops, "warm": self.warm, "_objs": self.results}, "machines", isolate=False)

    return History


def tasks(tier, seed):
    n = 640 if tier == "quick" else 9600
    shards = 32 if tier == "quick" else 128
    steps = 30 if tier == "quick" else 50
    t = [(MOD, "machines", (n // shards, seed * 1_000_003 + i, steps)) for i in range(shards)]
    t += [(MOD, "hashseed", (f, 4 if tier == "quick" else 8)) for f in ([0, 16, 12] if tier == "quick" else range(len(FAMILIES)))]
    fams = range(len(FAMILIES)) if tier == "thorough" else [0, 2, 7, 12, 13, 15, 19, 20, 22, 23]
    t += [(MOD, "two_step", (f, sh, 4, tier == "thorough" or f in (2, 20))) for f in fams for sh in range(4)]
    if tier == "thorough":
        t += [(MOD, "fresh", (seed * 77 + i, 20)) for i in range(16)]
    else:
        t += [(MOD, "fresh", (seed * 77, 6))]
    return t


def two_step(acc, fam_idx, shard, nshards, spelled=True):
    """Exhaustive small scope: for one atom family, every history consisting of ONE binary operation on two atoms,
    followed by every probe `x op y` and `(x op y) op z` over the family.  warm (after the history) vs cold."""
    layer = "L1-two-step-histories"
    acc.exhaustive_layers.add(layer)
    mod = sys.modules[MOD]
    fam = FAMILIES[fam_idx]
    atoms = [["atom", b, 0] for b in fam]
    import itertools

    def leaf(a):
        return ["parse", a, 0]

    hist = [[op, leaf(x), leaf(y)] for op in ("and", "or") for x, y in itertools.product(atoms, repeat=2)]
    probes = [[op, leaf(x), leaf(y)] for op in ("and", "or") for x, y in itertools.product(atoms, repeat=2)]
    # the same pairs in the other spelling of their literals (X.Y / X.Y.0): equal operands, different text
    if spelled:
        probes += [[op, ["parse", x, 2], ["parse", y, 2]] for op in ("and", "or") for x, y in itertools.product(atoms, repeat=2)]
    probes += [[op2, [op1, leaf(x), leaf(y)], leaf(z)] for op1 in ("and", "or") for op2 in ("and", "or") for x, y, z in itertools.product(atoms, repeat=3)]
    cold_obs = {}
    for pi, p in enumerate(probes):
        if pi % nshards != shard:
            continue
        cold_obs[pi], cold_m = cold_with_object(p)
        for h in hist:
            acc.evaluations += 1
            acc.layers[layer] += 1
            harness.reset_caches()
            try:
                compute(h)
            except Exception:  # noqa: BLE001  (the history itself raises: nothing to compare)
                continue
            try:
                wm = compute(p)
                w = observe(wm)
            except Exception as e:  # noqa: BLE001
                wm, w = None, raised(e)
            acc.oracle_evaluations += 1
            if h != p:
                acc.nontrivial_exhaustive += 1
            d = diff_kind(w, cold_obs[pi])
            if d or (wm is not None and cold_m is not None and not same_object(wm, cold_m)):
                ops = _recipe_to_ops(h)
                ops = ops + _recipe_to_ops(p, base=len(ops))
                harness.process(mod, acc, "history", {"ops": ops}, layer, isolate=False)
    if shard == 0:
        acc.sample({"family": [render_atom(b, 0) for b in fam], "histories": len(hist), "probes": len(probes)}, layer)


def seed_recipes(fam_idx):
    """Single parse_marker calls over one family plus two foreign atoms: shapes that reach union_simplify /
    intersect_simplify (shared factors) and the cnf/dnf products."""
    import itertools

    fam = list(FAMILIES[fam_idx])
    for extra in (9, 7, 1):
        if extra not in fam and len(fam) < 6:
            fam.append(extra)
    A = [["atom", b, 0] for b in fam]
    out = []
    for x, y, z, w in itertools.product(A, repeat=4):
        if x == y or z == w:
            continue
        out.append(["parse", ["and", [x, y, ["or", [z, w]]]], 0])
        out.append(["parse", ["or", [["and", [x, y]], ["and", [x, z]], w]], 0])
    return out


def hashseed(acc, fam_idx, nseeds):
    """The same single operation in fresh interpreters that differ only in PYTHONHASHSEED."""
    layer = "fresh-interpreters-by-hash-seed"
    recipes = seed_recipes(fam_idx)
    env0 = dict(os.environ, PYTHONPATH=os.pathsep.join([harness.VERIF, os.path.join(harness.REPO, "src")] + os.environ.get("PYTHONPATH", "").split(os.pathsep)))
    import tempfile

    with tempfile.NamedTemporaryFile("w", suffix=".json", delete=False) as f:
        json.dump(recipes, f)
        path = f.name
    try:
        results = {}
        for s in range(nseeds):
            p = subprocess.run([sys.executable, "-m", "vpcheck.checks.c10", "--batch", path], env=dict(env0, PYTHONHASHSEED=str(s)), capture_output=True, text=True, timeout=1800)
            if p.returncode != 0:
                raise harness.HarnessError(f"hash-seed batch failed: {p.stderr[-500:]}")
            results[s] = json.loads(p.stdout.strip().splitlines()[-1])
    finally:
        os.unlink(path)
    for i, r in enumerate(recipes):
        acc.case(layer)
        acc.oracle_evaluations += nseeds
        base = results[0][i]
        if base is None:
            continue
        acc.nontrivial_exhaustive += 1
        for s in range(1, nseeds):
            o = results[s][i]
            if o is None:
                continue
            d = diff_kind(o, base)
            if d:
                acc.fail("seedprobe", f"result-depends-on-PYTHONHASHSEED:{d}", {"recipe": r, "text": render_tree(r[1]), "seeds": [0, s]}, expected={"seed 0": base["text"]}, got={f"seed {s}": o["text"]})
                break
    acc.sample({"family": fam_idx, "recipes": len(recipes), "seeds": nseeds, "example": render_tree(recipes[0][1])}, layer)


def _shift_tree(t, shift):
    """The tree with the spelling shift baked into its atoms (ops carry no shift of their own)."""
    if not shift:
        return t
    if t[0] == "atom":
        return ["atom", t[1], (t[2] + shift) % 4]
    return [t[0], [_shift_tree(c, shift) for c in t[1]]]


def _recipe_to_ops(r, base=0):
    """Flatten a recipe (over variant-0 parses) into an op list whose indices start at `base`."""
    out = []

    def go(x):
        if x[0] == "parse":
            out.append(["parse", _shift_tree(x[1], x[2] if len(x) > 2 else 0)])
            return base + len(out) - 1
        i, j = go(x[1]), go(x[2])
        out.append([x[0], i, j])
        return base + len(out) - 1

    go(r)
    return out


def machines(acc, n, seed, steps):
    machine = make_machine(acc, steps)
    run_state_machine_as_test(
        hypothesis.seed(seed)(machine),
        settings=settings(
            max_examples=n, stateful_step_count=steps, database=None, deadline=None, derandomize=False, report_multiple_bugs=False, suppress_health_check=list(HealthCheck), phases=[Phase.generate]
        ),
    )


def fresh(acc, seed, n):
    """cache_clear + fresh objects == fresh interpreter?  One subprocess per probe."""
    import random  # seeded from VERIF_SEED only; picks which recipes are sent to a fresh interpreter

    rnd = random.Random(seed)
    env = dict(os.environ, PYTHONHASHSEED="0", PYTHONPATH=os.pathsep.join([harness.VERIF, os.path.join(harness.REPO, "src")] + os.environ.get("PYTHONPATH", "").split(os.pathsep)))
    for _ in range(n):
        # a small random history, then one probe of it
        ops = []
        for k in range(rnd.randint(3, 8)):
            if k < 2 or rnd.random() < 0.4:
                tr = ["atom", rnd.randrange(len(BASE)), rnd.randrange(4)]
                if rnd.random() < 0.6:
                    tr = [rnd.choice(["and", "or"]), [tr, ["atom", rnd.randrange(len(BASE)), rnd.randrange(4)]]]
                ops.append(["parse", tr])
            else:
                kind = rnd.choice(["and", "or", "reparse", "variant", "perm"])
                if kind in ("and", "or"):
                    ops.append([kind, rnd.randrange(len(ops)), rnd.randrange(len(ops))])
                elif kind in ("reparse", "perm"):
                    ops.append([kind, rnd.randrange(len(ops))])
                else:
                    ops.append(["variant", rnd.randrange(len(ops)), rnd.randint(1, 3)])
        probe = rnd.randrange(len(ops))
        recipe = recipe_of(ops, probe)
        acc.case("fresh-interpreter")
        try:
            mine = cold(recipe)
        except Exception:  # noqa: BLE001
            continue
        p = subprocess.run([sys.executable, "-m", "vpcheck.checks.c10", json.dumps(recipe)], env=env, capture_output=True, text=True, timeout=120)
        if p.returncode != 0:
            raise harness.HarnessError(f"fresh-interpreter probe failed: {p.stderr[-500:]}")
        theirs = json.loads(p.stdout.strip().splitlines()[-1])
        acc.oracle_evaluations += 1
        if diff_kind(mine, theirs):
            acc.fail("fresh", f"cold-recomputation-differs-from-fresh-interpreter:{diff_kind(mine, theirs)}", {"recipe": recipe}, expected=theirs, got=mine)


def evaluate(kind, case, acc):
    if kind == "fresh":
        return
    if kind == "seedprobe":
        env0 = dict(os.environ, PYTHONPATH=os.pathsep.join([harness.VERIF, os.path.join(harness.REPO, "src")] + os.environ.get("PYTHONPATH", "").split(os.pathsep)))
        obs = []
        for s in case["seeds"]:
            p = subprocess.run([sys.executable, "-m", "vpcheck.checks.c10", json.dumps(case["recipe"])], env=dict(env0, PYTHONHASHSEED=str(s)), capture_output=True, text=True, timeout=300)
            obs.append(json.loads(p.stdout.strip().splitlines()[-1]))
        d = diff_kind(obs[0], obs[1])
        if d:
            acc.fail(kind, f"result-depends-on-PYTHONHASHSEED:{d}", case, expected={f"seed {case['seeds'][0]}": obs[0]["text"]}, got={f"seed {case['seeds'][1]}": obs[1]["text"]})
        return
    ops = case["ops"]
    warm = case.get("warm")
    results = case.pop("_objs", None)  # live objects from the machine: never part of a recorded case
    if warm is None:
        harness.reset_caches()
        results, warm = [], []
        for k, op in enumerate(ops):
            try:
                r = apply_op(ops[: k + 1], results, op)
            except harness.HarnessError:
                raise
            except Exception as e:  # noqa: BLE001
                if k < len(ops) - 1:
                    return  # an operation of the history raises: nothing to compare (not a C10 matter)
                results.append(None)
                warm.append(raised(e))
                break
            results.append(r)
            warm.append(observe(r))
    seen = {}
    for k, op in enumerate(ops):
        recipe = recipe_of(ops, k)
        c, c_obj = cold_with_object(recipe)
        acc.oracle_evaluations += 1
        mine = set(recipe_atoms(recipe))
        earlier = set()
        for j in range(k):
            earlier |= set(recipe_atoms(recipe_of(ops, j)))
        if any(b == b2 and v != v2 for b, v in mine for b2, v2 in earlier):
            acc.nontriv([ops[:k], op])
            acc.label("probe:shares-atom-with-history-in-other-spelling")
        acc.label(f"op:{op[0]}")
        d = diff_kind(warm[k], c)
        if d:
            acc.fail(kind, f"warm-differs-from-cold:{d}:{op[0]}", {"ops": ops[: k + 1]}, expected={"cold": {x: c[x] for x in ("text", "class", "is_any", "is_empty")}}, got={"warm": {x: warm[k][x] for x in ("text", "class", "is_any", "is_empty")}, "table_equal": warm[k]["table"] == c["table"], "probe": k})
            break
        if results is not None and results[k] is not None and c_obj is not None and not same_object(results[k], c_obj):
            acc.fail(kind, f"warm-differs-from-cold:object-equality:{op[0]}", {"ops": ops[: k + 1]}, expected="warm result == cold result (same text, same class)", got={"text": c["text"], "warm == cold": results[k] == c_obj, "cold == warm": c_obj == results[k], "probe": k})
            break
    if len(ops) >= 4:
        acc.sample({"ops": [o if o[0] != "parse" else ["parse", render_tree(o[1])] for o in ops[:8]], "n_ops": len(ops), "last": warm[-1]["text"]}, "histories")


def candidates(kind, case):
    if kind != "history":
        return
    ops = case["ops"]
    n = len(ops)
    for k in range(n - 2, -1, -1):
        # drop op k if nothing later refers to it
        refs = [o for o in ops[k + 1 :] if o[0] != "parse" and k in o[1:3]]
        if refs:
            continue
        new = []
        for idx, o in enumerate(ops):
            if idx == k:
                continue
            if o[0] == "parse":
                new.append(o)
            elif o[0] in ("and", "or"):
                new.append([o[0], o[1] - (o[1] > k), o[2] - (o[2] > k)])
            elif o[0] in ("reparse", "perm"):
                new.append([o[0], o[1] - (o[1] > k)])
            else:
                new.append([o[0], o[1] - (o[1] > k), o[2]])
        yield {"ops": new}
    for k, o in enumerate(ops):
        if o[0] == "parse" and o[1][0] != "atom":
            for ch in o[1][1]:
                yield {"ops": ops[:k] + [["parse", ch]] + ops[k + 1 :]}


if __name__ == "__main__":
    # fresh-interpreter probes: python -m vpcheck.checks.c10 '<recipe json>'  |  --batch <file with a list of recipes>
    if sys.argv[1] == "--batch":
        out = []
        for r in json.load(open(sys.argv[2])):
            harness.reset_caches()
            try:
                out.append(observe(compute(r)))
            except Exception:  # noqa: BLE001
                out.append(None)
        print(json.dumps(out))
    else:
        print(json.dumps(observe(compute(json.loads(sys.argv[1])))))
