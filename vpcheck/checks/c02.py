"""C02 - marker & and | select exactly the conjunction / disjunction of their operands.

For every environment row:  (a&b).evaluate(e) == a.evaluate(e) and b.evaluate(e)   (the relation as stated)
and == the shadow AST's value (independent reference: packaging for atoms, Python all/any above);
operands themselves (parse results, earlier & | results) must agree with their shadow;
is_empty() => no row true, is_any() => all rows true.
  L1 exhaustive atom tables: all ordered pairs (string/extra variables: also triples) of atoms on one
     variable family, every operator x literal x operand order, each on its full value grid;
  L2 Hypothesis: operand expressions (parse of and/or trees, closure under & |, Empty/Any).
"""

from __future__ import annotations

import itertools
import sys

from hypothesis import strategies as st

from .. import harness
from .. import markerops as O
from .. import markers as M

PROP = "C02"
CASE_TIMEOUT = 8.0
MOD = __name__
META = {
    "rule": "L1: complete atom tables - ordered pairs of all python_version/python_full_version atoms (7 operators + wildcards "
    "+ in/not in lists, both operand orders), pairs and triples of atoms on one string variable (==, !=, in, not in, "
    "literal-on-the-left), on extra (sets) and on platform_release, post-release literals as bounds against every comparison on their neighbours (post-bound-pairs), each evaluated on its whole value grid; L2: Hypothesis "
    "operand expressions. Non-trivial = the result is simpler than the naive conjunction/disjunction of the operands (some "
    "merge or simplification happened) and its truth table is not constant; distinct by operand text.",
    "assumptions": [
        "atom truth from packaging.Marker (extra against a set: PEP 685 reference); environments are final interpreters with python_version = major.minor",
        "M4 (known finding): rows where python_version is a substring but not an item of an in/not-in list are excluded and counted",
        "S4a (known finding): cases holding `V < X.postN` and an inclusive lower bound lo < X.postN on the same version variable are excluded and counted",
    ],
}


# ---- L1 tables -------------------------------------------------------------
def py_atoms(tier):
    if tier == "quick":
        pv, pfv = ["3", "3.8", "3.10", "3.8.1", "v3.8.1", "3.8rc1", "3.8.1rc1"], ["3.8", "3.8.2", "3.10", "3.9a1"]
        lists = ["3.8, 3.10", "2.7,3.10"]
        wild3 = ["3.8.0", "3.8.1"]
    else:
        wild3 = ["3.8.0", "3.8.1", "3.10.0"]
        pv, pfv = ["3", "2", "3.8", "3.9", "3.10", "2.7", "3.0", "3.8.1", "3.8.0", "3.10.2", "v3.8.1", "0!3.8", "3.8.1.0", "3.8rc1", "3.8.post1", "3.8.1rc1", "3.post1"], ["3.8", "3.9", "3.8.0", "3.8.2", "3.9.0", "3.10.1", "2.7.18", "3.10", "3.9a1", "3.10.0rc1"]
        lists = ["3.8", "3.8,3.9", "3.8, 3.10", "2.7,3.10", "3.10, 3.11, 3.12"]
    out = []
    for var, vals in (("python_version", pv), ("python_full_version", pfv)):
        for op in M.CMP_OPS + ["~="]:
            for v in vals:
                if op == "~=" and ("." not in v or v == "3.post1"):
                    continue  # ~= needs two release segments
                out.append({"var": var, "op": op, "val": v, "rev": False, "style": 0})
                if op != "~=" and v.replace(".", "").isdigit():
                    out.append({"var": var, "op": op, "val": v, "rev": True, "style": 0})
        # wildcards: X.*, X.Y.* and, on python_version, X.Y.Z.* (printed by the library itself for
        # python_version < "3.9.0" or python_version >= "3.9.1.0")
        for v in vals + (wild3 if var == "python_version" else []):
            if (v.count(".") <= 1 or v in wild3) and v.replace(".", "").isdigit():
                out.append({"var": var, "op": "==", "val": v + ".*", "rev": False, "style": 0})
                out.append({"var": var, "op": "!=", "val": v + ".*", "rev": False, "style": 0})
    for v in M.PY_NONVERSION_LITS[: 1 if tier == "quick" else 3]:
        for op in ("==", "!="):
            out.append({"var": "python_full_version", "op": op, "val": v, "rev": False, "style": 0})
    for op in ("==", "!="):
        out.append({"var": "python_version", "op": op, "val": "3.9+abc", "rev": False, "style": 0})
    for lst in lists:
        out.append({"var": "python_version", "op": "in", "val": lst, "rev": False, "style": 0})
        out.append({"var": "python_version", "op": "not in", "val": lst, "rev": False, "style": 0})
    return out


def str_atoms(tier="thorough"):
    out = []
    quick = tier == "quick"
    for lit in ["linux", "linux2", "win32"] if quick else ["linux", "linux2", "win32", "win"]:
        for op in ("==", "!="):
            out.append({"var": "sys_platform", "op": op, "val": lit, "rev": False, "style": 0})
        if quick and lit == "win32":
            continue  # "linux2" occurs as literal on the left AND as forward list below: same variable, same literal, both orientations
        out.append({"var": "sys_platform", "op": "==", "val": lit, "rev": True, "style": 0})
        for op in ("in", "not in"):
            out.append({"var": "sys_platform", "op": op, "val": lit, "rev": True, "style": 0})
    for lst in ["linux win32", "linux2"] if quick else ["linux win32", "linux2", "win linux2"]:
        for op in ("in", "not in"):
            out.append({"var": "sys_platform", "op": op, "val": lst, "rev": False, "style": 0})
    return out


def extra_atoms(tier="thorough"):
    if tier == "quick":
        return [{"var": "extra", "op": op, "val": n, "rev": rev, "style": 0} for n in ("foo", "Foo_Bar", "foo-bar", "bar") for op in ("==", "!=") for rev in (False, True) if not rev or n == "foo"]
    return [{"var": "extra", "op": op, "val": n, "rev": rev, "style": 0} for n in ("foo", "Foo_Bar", "foo-bar", "bar") for op in ("==", "!=") for rev in (False, True)]


def rel_atoms():
    out = [{"var": "platform_release", "op": op, "val": v, "rev": False, "style": 0} for v in M.REL_NONVERSION_LITS for op in ("==", "!=")]
    for v in ["5.4", "5.4.0", "6", "10"]:
        for op in M.CMP_OPS + ["~="]:
            if op == "~=" and "." not in v:
                continue
            out.append({"var": "platform_release", "op": op, "val": v, "rev": False, "style": 0})
        out.append({"var": "platform_release", "op": ">=", "val": v, "rev": True, "style": 0})
    return out


def P(a):
    return ["parse", ["atom", a]]


def table_cases(name, tier):
    if name == "py-pairs":
        A = py_atoms(tier)
        for x, y in itertools.product(A, repeat=2):
            yield {"a": P(x), "b": P(y)}
    elif name == "rel-pairs":
        A = rel_atoms()
        for x, y in itertools.product(A, repeat=2):
            yield {"a": P(x), "b": P(y)}
    elif name in ("str-triples", "extra-triples"):
        A = str_atoms(tier) if name == "str-triples" else extra_atoms(tier)
        for x, y in itertools.product(A, repeat=2):
            yield {"a": P(x), "b": P(y)}
        for x, y, z in itertools.product(A, repeat=3):
            for o in ("and", "or"):
                yield {"a": [o, P(x), P(y)], "b": P(z)}
    elif name == "post-bound-pairs":
        # a post-release literal as a bound next to its neighbours: the union / range renderings (!=X.Y.*, ~=) compare
        # release segments only, so `< "3.8.0.post1" or >= "3.9"` must not become `!= "3.8.*"` (seeded change C02_h).
        # Pairs in which [lo, X.postN) is a non-empty range are the known finding S4a and are counted as excluded.
        for var in ("python_full_version", "python_version"):
            posts = ["3.8.0.post1", "3.8.post1", "3.9.0.post1", "3.8.1.post2"][: 3 if tier == "quick" else 4]
            near = ["3.8", "3.8.0", "3.9", "3.9.0", "3.8.1", "3.8.2", "3.10", "3.7"][: 6 if tier == "quick" else 8]
            PA = [{"var": var, "op": op, "val": v, "rev": False, "style": 0} for op in M.CMP_OPS for v in posts]
            NA = [{"var": var, "op": op, "val": v, "rev": False, "style": 0} for op in M.CMP_OPS + ["~="] for v in near]
            NA += [{"var": var, "op": op, "val": v + ".*", "rev": False, "style": 0} for op in ("==", "!=") for v in ("3.8", "3.9")]
            for x, y in itertools.product(PA, NA):
                yield {"a": P(x), "b": P(y)}
                yield {"a": P(y), "b": P(x)}
            for x, y in itertools.product(PA, repeat=2):
                yield {"a": P(x), "b": P(y)}
            # the post-release bound appears only after an earlier merge: (x o y) then z
            lohi = [(l, h) for l in NA if l["op"] in ("<", "<=") for h in NA if h["op"] in (">", ">=")][:: 5 if tier == "quick" else 1]
            for (l, h), z in itertools.product(lohi, [p for p in PA if p["op"] in ("<", "<=", ">", ">=")]):
                for o in ("and", "or"):
                    yield {"a": [o, P(l), P(h)], "b": P(z)}
    elif name == "str-group-pairs":
        # every pair of ==-groups / !=-groups (and single atoms) on one string variable: group x group
        lits = ["linux", "linux2", "win32", "darwin"] if tier == "quick" else ["linux", "linux2", "win32", "darwin", "win"]
        eq = [{"var": "sys_platform", "op": "==", "val": l, "rev": False, "style": 0} for l in lits]
        ne = [{"var": "sys_platform", "op": "!=", "val": l, "rev": False, "style": 0} for l in lits]
        groups = [["or", P(x), P(y)] for x, y in itertools.combinations(eq, 2)] + [["and", P(x), P(y)] for x, y in itertools.combinations(ne, 2)]
        groups += [["or", ["or", P(eq[0]), P(eq[1])], P(eq[2])], ["and", ["and", P(ne[0]), P(ne[1])], P(ne[2])]]
        singles = [P(a) for a in eq[:2] + ne[:2]] + [P({"var": "sys_platform", "op": "in", "val": "linux win32", "rev": False, "style": 0})]
        for a, b in itertools.product(groups + singles, repeat=2):
            yield {"a": a, "b": b}
    elif name == "wide-with-neutral":
        yield from wide_special_cases(tier)
    elif name == "consensus-py":
        # (not x and P) | (x and Q)  and its dual: complementary guards keep the conjunctive / disjunctive form, so the
        # two version atoms P, Q sit in different clauses and meet for the first time when the TEXT is parsed again
        A = [a for a in py_atoms("quick") if not a["rev"]][:: 3 if tier == "quick" else 1]
        guards = [
            ({"var": "os_name", "op": "==", "val": "nt", "rev": False, "style": 0}, {"var": "os_name", "op": "!=", "val": "nt", "rev": False, "style": 0}),
            ({"var": "sys_platform", "op": "in", "val": "linux win32", "rev": False, "style": 0}, {"var": "sys_platform", "op": "not in", "val": "linux win32", "rev": False, "style": 0}),
        ]
        for (x, nx), p, q in itertools.product(guards[: 1 if tier == "quick" else 2], A, A):
            if p["var"] == q["var"]:
                continue
            yield {"a": ["and", P(nx), P(p)], "b": ["and", P(x), P(q)]}
            yield {"a": ["or", P(nx), P(p)], "b": ["or", P(x), P(q)]}
    elif name == "shared-child-unions":
        # two disjunctions that share a child (S) and are otherwise complex enough for union() to prefer the raw,
        # un-normalised candidate MarkerUnion(*operands) over its cnf/dnf
        W = _WIDE_ATOMS
        n = len(W)
        conj = [(i, j) for i, j in itertools.combinations(range(n), 2)]
        step = 5 if tier == "quick" else 1
        k = 0
        for s_ in range(n):
            for (i, j), (p, q) in itertools.product(conj, repeat=2):
                if s_ in (i, j, p, q) or (i, j) == (p, q):
                    continue
                k += 1
                if k % step:
                    continue
                yield {"a": ["or", ["and", P(W[i]), P(W[j])], P(W[s_])], "b": ["or", ["and", P(W[p]), P(W[q])], P(W[s_])]}
        # (x1 or x2 or x3) and e, produced by an earlier |, united with a disjunction sharing the child S
        for s_, e in itertools.permutations(range(n), 2):
            rest = [x for x in range(n) if x not in (s_, e)]
            for trio in list(itertools.combinations(rest, 3))[:: 4 if tier == "quick" else 1]:
                f = next(x for x in rest if x not in trio)
                grp = ["or", ["or", P(W[trio[0]]), P(W[trio[1]])], P(W[trio[2]])]
                yield {"a": ["or", ["and", grp, P(W[e])], P(W[s_])], "b": ["or", P(W[s_]), P(W[f])]}
    elif name == "factored-pairs":
        # (P and X1) | (P and X2) [| picks the conjunctive form P and (X1 or X2)], with X1, X2 on one variable V that is
        # then excluded / kept by only(): a disjunction child that becomes universal or empty inside a conjunction
        W = _WIDE_ATOMS
        A = lambda var, op, val: {"var": var, "op": op, "val": val, "rev": False, "style": 0}  # noqa: E731
        xs = [
            (A("sys_platform", "==", "win32"), A("sys_platform", "==", "darwin")),
            (A("extra", "==", "bar"), A("extra", "==", "baz")),
            (A("python_full_version", ">=", "3.9.1"), A("python_full_version", "<", "3.9.1")),
            (A("os_name", "==", "posix"), A("os_name", "!=", "posix")),
            (A("platform_machine", "in", "x86_64 AMD64"), A("platform_machine", "==", "x86")),
            # a literal that holds a double quote (rendered in single quotes), first and second in its group
            (A("platform_system", "==", 'Li"nux'), A("platform_system", "==", "Windows")),
            (A("platform_system", "==", "Windows"), A("platform_system", "in", 'Li"nux Darwin')),
        ]
        # two alternatives that share an atom and are each unsatisfiable in a way the pairwise algebra cannot see
        # (== against not in), plus a third one: the empty marker only appears while the union is being normalised
        for c, u1, u2 in (
            (A("os_name", "not in", "nt posix"), A("os_name", "==", "nt"), A("os_name", "==", "posix")),
            (A("sys_platform", "not in", "linux win32"), A("sys_platform", "==", "linux"), A("sys_platform", "==", "win32")),
        ):
            for i in range(0, len(W), 1 if tier != "quick" else 3):
                z = W[i]
                if z["var"] == c["var"]:
                    continue
                t3 = ["or", [["and", [["atom", c], ["atom", u1]]], ["and", [["atom", c], ["atom", u2]]], ["atom", z]]]
                yield {"a": ["parse", t3], "b": ["empty"], "names": [z["var"]]}
                yield {"a": ["or", ["and", P(c), P(u1)], ["and", P(c), P(u2)]], "b": P(z), "names": [z["var"]]}
        for (x1, x2), i in itertools.product(xs, range(len(W))):
            p = W[i]
            if p["var"] == x1["var"]:
                continue
            names = [x1["var"]]
            yield {"a": ["and", P(p), P(x1)], "b": ["and", P(p), P(x2)], "names": names}
            yield {"a": ["or", P(p), P(x1)], "b": ["or", P(p), P(x2)], "names": names}
            for j in range(len(W)) if tier != "quick" else [(i + 1) % len(W), (i + 3) % len(W)]:
                q = W[j]
                if j == i or q["var"] in (x1["var"], p["var"]):
                    continue
                yield {"a": ["and", ["and", P(p), P(q)], P(x1)], "b": ["and", ["and", P(p), P(q)], P(x2)], "names": names}
                yield {"a": ["and", P(p), P(x1)], "b": ["and", P(q), P(x2)], "names": [p["var"], q["var"]]}
    elif name == "factored-triples":
        # ((P and X1) | (P and X2)) | (X1 and Y): | keeps the factored alternative P and (X1 or X2) next to X1 and Y;
        # only() without Y's variable (three operations deep) re-normalises a conjunction that holds a nested union
        W = _WIDE_ATOMS
        k = 0
        for p, x1, x2, y in itertools.permutations(range(len(W)), 4):
            if len({W[i]["var"] for i in (p, x1, x2, y)}) < 4:
                continue
            k += 1
            if tier == "quick" and k % 6:
                continue
            a = ["or", ["and", P(W[p]), P(W[x1])], ["and", P(W[p]), P(W[x2])]]
            yield {"a": a, "b": ["and", P(W[x1]), P(W[y])], "names": sorted({W[p]["var"], W[x1]["var"], W[x2]["var"]})}
    elif name == "mixed-py-triples":
        # x or (x and y) or x  shapes and merged operands meeting a third atom
        A = [a for a in py_atoms("quick") if not a["rev"]][:: 4 if tier == "quick" else 2]
        for x, y, z in itertools.product(A, repeat=3):
            yield {"a": ["or", P(x), ["and", P(x), P(y)]], "b": P(z)}


_WIDE_ATOMS = [
    {"var": "os_name", "op": "==", "val": "nt", "rev": False, "style": 0},
    {"var": "sys_platform", "op": "==", "val": "linux", "rev": False, "style": 0},
    {"var": "python_version", "op": ">=", "val": "3.8", "rev": False, "style": 0},
    {"var": "platform_machine", "op": "==", "val": "arm64", "rev": False, "style": 0},
    {"var": "implementation_name", "op": "==", "val": "pypy", "rev": False, "style": 0},
    {"var": "extra", "op": "==", "val": "foo", "rev": False, "style": 0},
    {"var": "platform_system", "op": "!=", "val": "Linux", "rev": False, "style": 0},
    {"var": "python_version", "op": "<", "val": "3.11", "rev": False, "style": 0},
]


def wide_special_cases(tier):
    """Wide DNF / CNF markers combined with the neutral / absorbing elements on either side:
    union()'s three-way candidate choice can hand back the raw, un-normalised candidate."""
    n = len(_WIDE_ATOMS)
    shapes = []
    c2 = list(itertools.combinations(range(n), 2))
    c3 = list(itertools.combinations(range(n), 3))
    s3, s2 = (5, 3) if tier == "quick" else (2, 1)
    for g1 in c3[::s3]:
        for g2 in c2[::s2]:
            shapes.append([g1, g2])
    for g1 in c3[:: s3 * 3]:
        for g2 in c3[1 :: s3 * 3]:
            shapes.append([g1, g2])
    for g1 in c2[:: s2 * 2]:
        for g2 in c2[1 :: s2 * 3]:
            shapes.append([g1, g2, c2[(g1[0] * 7 + g2[1] * 3) % len(c2)]])
    shapes = [[[_WIDE_ATOMS[i] for i in g] for g in groups] for groups in shapes]
    for groups in shapes:
        for inner, outer in (("and", "or"), ("or", "and")):
            tree = [outer, [[inner, [["atom", a] for a in g]] for g in groups]]
            for special in (["empty"], ["any"]):
                yield {"a": ["parse", tree], "b": special}
                yield {"a": special, "b": ["parse", tree]}
    # really wide ones (16 and more atoms: hundreds of clauses in the other normal form) against the same elements;
    # cheap on a correct tree because the neutral / absorbing operand is dealt with before anything is distributed
    pool = [
        {"var": v, "op": "==", "val": x, "rev": False, "style": 0}
        for v, xs in (("os_name", ["nt", "posix", "java"]), ("sys_platform", ["linux", "win32", "darwin", "cygwin"]), ("platform_machine", ["x86_64", "arm64", "aarch64"]),
                      ("implementation_name", ["cpython", "pypy"]), ("platform_system", ["Linux", "Windows", "Darwin"]), ("platform_python_implementation", ["CPython", "PyPy"]))
        for x in xs
    ]
    byvar: dict = {}
    for a in pool:
        byvar.setdefault(a["var"], []).append(a)
    vars_ = list(byvar)
    for sizes in [(3, 3, 3, 3, 4), (2,) * 9, (4, 4, 4, 4), (3, 3, 3, 3, 3)] if tier == "quick" else [(3, 3, 3, 3, 4), (2,) * 9, (4, 4, 4, 4), (3, 3, 3, 3, 3), (2,) * 10, (4, 4, 4, 5), (5, 5, 5)]:
        groups = []
        for gi, size in enumerate(sizes):
            groups.append([byvar[vars_[(gi + j) % len(vars_)]][(gi + 2 * j) % len(byvar[vars_[(gi + j) % len(vars_)]])] for j in range(size)])
        for inner, outer in (("and", "or"),):  # written as DNF: parsing the conjunctive spelling would itself distribute
            tree = [outer, [[inner, [["atom", a] for a in g]] for g in groups]]
            for special in (["empty"], ["any"]):
                yield {"a": ["parse", tree], "b": special}
                yield {"a": special, "b": ["parse", tree]}


def tasks(tier, seed):
    global CASE_TIMEOUT
    CASE_TIMEOUT = 2.5 if tier == "quick" else 6.0
    n = 2400 if tier == "quick" else 48000
    shards = 48 if tier == "quick" else 192
    # slow, straggler-prone shards first
    t = [(MOD, "hyp", (n // shards, seed * 1_000_003 + i, tier)) for i in range(shards)]
    for name, nsh in (("py-pairs", 32 if tier == "quick" else 64), ("rel-pairs", 4), ("str-triples", 32), ("extra-triples", 16), ("mixed-py-triples", 16), ("wide-with-neutral", 16), ("str-group-pairs", 8), ("consensus-py", 16), ("shared-child-unions", 16), ("factored-pairs", 4), ("factored-triples", 8), ("post-bound-pairs", 16)):
        for sh in range(nsh):
            t.append((MOD, "tables", (name, tier, sh, nsh)))
    return t


def tables(acc, name, tier, shard, nshards):
    layer = "L1-" + name
    acc.exhaustive_layers.add(layer)
    mod = sys.modules[MOD]
    for i, case in enumerate(table_cases(name, tier)):
        if i % nshards == shard:
            harness.process(mod, acc, "pair", case, layer)


def strategy(tier):
    ml = 3 if tier == "quick" else 4
    return st.fixed_dictionaries({"a": O.operand(max_leaves=ml), "b": O.operand(max_leaves=ml)})


def hyp(acc, n, seed, tier):
    mod = sys.modules[MOD]
    harness.run_hypothesis(acc, strategy(tier), lambda c: harness.process(mod, acc, "pair", c, "L2-hyp"), n, seed)


def is_known(kind, case):
    # S4a through markers: V >= lo merged with V < "X.postN" renders as ~=lo (see known_findings.json)
    return "S4a-post-release-upper-bound" if O.s4a_case(case) else None


def evaluate(kind, case, acc):
    a_expr, b_expr = case["a"], case["b"]
    atoms = O.expr_atoms(a_expr) + O.expr_atoms(b_expr)
    rows = M.environments(atoms, limit=256, extra_as_set=True, salt=len(atoms))
    if harness.KNOWN_ENABLED:
        kept = [r for r in rows if not M.m4_row(atoms, r)]
        if len(kept) != len(rows):
            acc.excluded_known["M4-rows"] += len(rows) - len(kept)
        rows = kept
    if not rows:
        rows = [{}]
    A, B = O.dep_eval(a_expr), O.dep_eval(b_expr)
    ta, tb = O.table(A, rows), O.table(B, rows)
    sa = [O.shadow(a_expr, r) for r in rows]
    sb = [O.shadow(b_expr, r) for r in rows]
    acc.oracle_evaluations += 4 * len(rows)
    cls = O.classes_of(atoms)
    operand_bad = False
    for name, expr, t, s in (("a", a_expr, ta, sa), ("b", b_expr, tb, sb)):
        if t != s:
            operand_bad = True
            i = next(k for k in range(len(rows)) if t[k] != s[k])
            what = "parse" if expr[0] == "parse" else "closure"
            acc.fail(kind, f"operand-{what}-differs-from-reference|{O.classes_of(O.expr_atoms(expr))}", case, expected={"env": M.env_json(rows[i]), "value": s[i]}, got={"value": t[i], "operand": name, "marker": str(A if name == "a" else B)})
    if operand_bad:
        return  # the operand itself (parse-time merge or atom evaluation) is wrong: & and | cannot be judged on it
    for op, f, comb in (("and", lambda: A & B, lambda x, y: x and y), ("or", lambda: A | B, lambda x, y: x or y)):
        R = f()
        tr = O.table(R, rows)
        acc.oracle_evaluations += 2 * len(rows)
        rel = [comb(x, y) for x, y in zip(ta, tb)]
        ref = [comb(x, y) for x, y in zip(sa, sb)]
        sh = O.shape(R)
        acc.label(f"{op}:{sh}")
        simplified = sh in ("Empty", "Any") or R.complexity[0] < A.complexity[0] + B.complexity[0]
        if simplified and len(set(ref)) == 2:
            acc.nontriv([op, O.expr_text(a_expr), O.expr_text(b_expr)])
            acc.sample({"a": O.expr_text(a_expr), "b": O.expr_text(b_expr), "op": op, "result": str(R), "rows": len(rows)}, "simplified")
        if tr != rel:
            i = next(k for k in range(len(rows)) if tr[k] != rel[k])
            acc.fail(kind, f"{op}:result-differs-from-operands|{cls}", case, expected={"env": M.env_json(rows[i]), "a": ta[i], "b": tb[i], "value": rel[i]}, got={"value": tr[i], "a": str(A), "b": str(B), "result": str(R)})
        elif tr != ref:
            i = next(k for k in range(len(rows)) if tr[k] != ref[k])
            acc.fail(kind, f"{op}:result-differs-from-reference|{cls}", case, expected={"env": M.env_json(rows[i]), "value": ref[i]}, got={"value": tr[i], "result": str(R)})
        if R.is_empty() and any(rel):
            i = rel.index(True)
            acc.fail(kind, f"{op}:is_empty-but-satisfiable|{cls}", case, expected={"env": M.env_json(rows[i]), "value": True}, got={"result": str(R), "a": str(A), "b": str(B)})
        if R.is_any() and not all(rel):
            i = rel.index(False)
            acc.fail(kind, f"{op}:is_any-but-refutable|{cls}", case, expected={"env": M.env_json(rows[i]), "value": False}, got={"result": str(R), "a": str(A), "b": str(B)})


def candidates(kind, case):
    for key in ("a", "b"):
        for s in O.expr_shrinks(case[key]):
            yield {**case, key: s}
