"""C05 - specifier results are canonical; ==, is_empty(), is_any() are exact.

Same operands and layers as C01, separate oracle:
  (i)  structural validator on every parse / operator result;
  (ii) x == y  <=>  same cells, for results within a case (both directions);
  (iii) is_empty() <=> no cell, is_any() <=> all cells;
  (iv) every operator result is == the canonical object of the set its operands define (this repeats C01's
       soundness step inside C05: a result that is canonical but denotes another set breaks "equal exactly
       when they admit the same versions" just as well).
"""

from __future__ import annotations

import itertools
import sys

from hypothesis import strategies as st
from packaging.version import Version

from .. import harness, specops, versions
from ..specmodel import ASSIGNMENTS, ModelError, bounds, brief, build, canonical_problems, cellmask, describe, same_set

PROP = "C05"
CASE_TIMEOUT = 10.0
MOD = __name__
META = {
    "rule": "L1: all ordered pairs of canonical cell sets over k bounds x assignments (exhaustive): each of "
    "a&b, a|b, ~a must be structurally canonical, equal (==, both directions) to the canonical object of the "
    "expected cell set and unequal to a neighbouring set, with exact is_empty()/is_any(). L2: Hypothesis "
    "expression trees; all node results pairwise: == <=> same cells. Non-trivial = operands touch or overlap "
    "(a merge/split decision was required).",
    "assumptions": [
        "packaging.version.Version ordering is the PEP 440 total order",
        "canonical shape as stated in the property: empty | one non-degenerate range | >=2 ascending, disjoint, non-touching, non-universal ranges",
    ],
}


def tasks(tier, seed):
    t = []
    plan = [(3, a, u) for a in range(5) for u in ("range", "any")] + [(4, a, "range") for a in range(5)]
    if tier == "thorough":
        plan += [(5, a, "range") for a in range(2)] + [(4, a, "any") for a in range(4)]
    for k, a, u in plan:
        nsh = {3: 1, 4: 4, 5: 32}[k]
        for sh in range(nsh):
            t.append((MOD, "exh", (k, a, u, sh, nsh)))
    n = 3000 if tier == "quick" else 60000
    shards = 16 if tier == "quick" else 64
    for i in range(shards):
        t.append((MOD, "hyp", (n // shards, seed * 1_000_003 + i, tier)))
    t.append((MOD, "floor", ()))
    nt = 4000 if tier == "quick" else 80000
    for i in range(8):
        t.append((MOD, "twins", (nt // 8, seed * 1_000_003 + 500 + i)))
    return t


FLOOR_CASES = [
    {"expr": "lt-floor-and-any", "text": "<0.dev0"},
    {"expr": "ge-floor", "text": ">=0.dev0"},
    {"expr": "not-lt-floor", "text": "<0.dev0"},
]


def is_known(kind, case):
    # S8: 0.dev0 is the least PEP 440 version; nothing lies below it, but an unbounded-below range is never empty
    return "S8" if kind == "floor" else None


def floor(acc):
    mod = sys.modules[MOD]
    for c in FLOOR_CASES:
        harness.process(mod, acc, "floor", c, "floor-of-the-order", isolate=False)


def twins(acc, n, seed):
    """L3: spellings that denote the same set by definition must parse to == objects (the parser is one of the
    operations whose results C05 speaks of): ~=V.N is >=V.N,==V.* (PEP 440), ==V is >=V,<=V, and !=V, <V, <=V,
    !=X.* are the complements of ==V, >=V, >V, ==X.*."""
    mod = sys.modules[MOD]
    strat = st.fixed_dictionaries({"v": versions.spelled_version(min_len=2), "x": versions.spelled_version(suffix=False, max_len=5)})
    harness.run_hypothesis(acc, strat, lambda c: harness.process(mod, acc, "twin", c, "L3-twin-spellings"), n, seed)


def _twin_pairs(case):
    v, x = case["v"], case["x"]
    V = Version(v)
    out = [("eq", f"=={v}", f">={v},<={v}", False), ("ne", f"!={v}", f"=={v}", True), ("lt", f"<{v}", f">={v}", True), ("le", f"<={v}", f">{v}", True), ("ne-wild", f"!={x}.*", f"=={x}.*", True)]
    X = Version(x)
    bumped = (f"{X.epoch}!" if X.epoch else "") + ".".join(map(str, [*X.release[:-1], X.release[-1] + 1]))
    out.append(("wild-range", f"=={x}.*", f">={x},<{bumped}", False))  # ==X.* is the half-open range [X, X+1)
    if not (V.is_prerelease or V.is_devrelease):
        # below its own base release (a pre- or dev-release) V is outside ==prefix.* in the interval reading
        prefix = (f"{V.epoch}!" if V.epoch else "") + ".".join(map(str, V.release[:-1]))
        out.append(("compatible", f"~={v}", f">={v},=={prefix}.*", False))
    return out


def _check_result(acc, kind, case, op, r, exp_mask, full, objs, pts_set, pts, salt):
    """Fast-path oracle of the exhaustive layer. Returns None or (bucket, expected, got)."""
    probs = canonical_problems(r)
    if probs:
        return (f"{op}:non-canonical:{probs[0]}", "canonical shape", {"problems": probs, "result": describe(r)})
    try:
        if not set(bounds(r)) <= pts_set:
            return (f"{op}:foreign-bound", "bounds among operands'", describe(r))
        got = cellmask(r, pts)
    except ModelError as e:
        return (f"{op}:class-{e}", "Empty/Any/Range/Union", str(r))
    if r.is_empty() != (exp_mask == 0):
        return (f"{op}:is_empty", exp_mask == 0, r.is_empty())
    if r.is_any() != (exp_mask == full):
        return (f"{op}:is_any", exp_mask == full, r.is_any())
    canon = objs[exp_mask]
    if got != exp_mask:
        # "two results compare equal exactly when they admit the same versions": the result stands for the
        # intersection/union/complement of its operands, so it has to be (==) the canonical object of that set
        return (f"{op}:not-the-canonical-object-of-the-expected-set", f"== {brief(canon)}", describe(r))
    if got == exp_mask and not (r == canon and canon == r):
        return (f"{op}:same-set-but-unequal", f"== {brief(canon)}", describe(r))
    other = objs[exp_mask ^ (1 << salt)]
    if got == exp_mask and (r == other or other == r):
        return (f"{op}:different-set-but-equal", f"!= {brief(other)}", describe(r))
    return None


def exh(acc, k, asg, univ, shard, nshards):
    layer = f"L1-k{k}"
    acc.exhaustive_layers.add(layer)
    names = ASSIGNMENTS[asg][:k]
    pts = [Version(x) for x in names]
    pts_set = set(pts)
    n = 2 * k + 1
    full = (1 << n) - 1
    objs = [build(m, pts, universal=univ) for m in range(1 << n)]
    bsets = [frozenset(bounds(o)) for o in objs]
    mod = sys.modules[MOD]
    for ma in range(shard, 1 << n, nshards):
        a = objs[ma]
        for mb in range(1 << n):
            b = objs[mb]
            acc.evaluations += 2
            acc.layers[layer] += 2
            try:
                res = (("and", a & b, ma & mb), ("or", a | b, ma | mb)) + ((("not", ~a, full & ~ma),) if mb == 0 else ())
            except Exception:  # noqa: BLE001
                for op in ("and", "or"):
                    harness.process(mod, acc, "cellpair", {"pts": names, "a": ma, "b": mb, "univ": univ, "op": op}, layer, isolate=False)
                continue
            for op, r, exp in res:
                if r is None:
                    continue
                bad = _check_result(acc, "cellpair", None, op, r, exp, full, objs, pts_set, pts, (ma + mb) % n)
                if bad:
                    acc.fail("cellpair", bad[0], {"pts": names, "a": ma, "b": mb, "univ": univ, "op": op}, expected=bad[1], got=bad[2])
            # touching or overlapping operands: a merge/split decision was required
            if 0 < ma < full and 0 < mb < full and ((ma & mb) or (ma & (mb << 1)) or (ma & (mb >> 1)) or (bsets[ma] & bsets[mb])):
                acc.nontrivial_exhaustive += 2
    acc.oracle_evaluations += (1 << n) * len(range(shard, 1 << n, nshards)) * 2 * 5
    if shard == 0:
        x, y = objs[37 % (full + 1)], objs[(21 + 97 * asg) % (full + 1)]
        acc.sample({"pts": names, "a": brief(x), "b": brief(y), "a|b": brief(x | y), "(a|b).is_any()": (x | y).is_any(), "a&b": brief(x & y), "(a&b).is_empty()": (x & y).is_empty()}, layer)


def strategy(tier):
    tree = versions.spec_expr_mixed(max_sets=3 if tier == "quick" else 4, max_leaves=3 if tier == "quick" else 5)
    return st.fixed_dictionaries({"a": tree, "b": tree})


def hyp(acc, n, seed, tier):
    mod = sys.modules[MOD]
    harness.run_hypothesis(acc, strategy(tier), lambda c: harness.process(mod, acc, "expr", c, "L2-expr"), n, seed)


def _collect(tree, steps, leaves):
    """eval_tree that also keeps parse results."""
    if tree[0] in ("leaf", "obj"):
        o = specops.eval_tree(tree, steps)
        if tree[0] == "leaf":
            leaves.append(o)
        return o
    if tree[0] == "not":
        x = _collect(tree[1], steps, leaves)
        r = ~x
        steps.append(("not", (x,), r))
        return r
    a = _collect(tree[1], steps, leaves)
    b = _collect(tree[2], steps, leaves)
    r = a & b if tree[0] == "and" else a | b
    steps.append((tree[0], (a, b), r))
    return r


def evaluate(kind, case, acc):
    if kind == "floor":
        from dep_logic.specifiers import parse_version_specifier as P

        s = P(case["text"])
        if case["expr"] == "lt-floor-and-any":
            r = s & P("")
            if not r.is_empty():
                acc.fail(kind, "floor:is_empty", case, expected="no version is below 0.dev0: empty", got={"is_empty": False, "result": describe(r)})
        elif case["expr"] == "ge-floor":
            if not s.is_any():
                acc.fail(kind, "floor:is_any", case, expected="every version is >= 0.dev0: universal", got={"is_any": False, "result": describe(s)})
        else:
            r = ~s
            if not (r == P("") and r.is_any()):
                acc.fail(kind, "floor:complement", case, expected="universal", got=describe(r))
        return
    if kind == "twin":
        from packaging.specifiers import SpecifierSet

        from dep_logic.specifiers import from_specifierset
        from dep_logic.specifiers import parse_version_specifier as P

        # the two entry points are twins as well
        for text in (f"~={case['v']}", f">={case['v']},!={case['x']}.*", f"<={case['v']},>{case['x']}"):
            a, b = P(text), from_specifierset(SpecifierSet(text))
            acc.oracle_evaluations += 1
            if not (a == b and b == a and hash(a) == hash(b)):
                acc.fail(kind, "twin:parse-vs-from_specifierset:unequal", case, expected=f"parse({text!r}) == from_specifierset(SpecifierSet({text!r}))", got={"parse": describe(a), "from_specifierset": describe(b)})

        for name, ta, tb, complement in _twin_pairs(case):
            a, b = P(ta), P(tb)
            if complement:
                b = ~b
            acc.oracle_evaluations += 1
            acc.label(f"twin:{name}")
            if name == "compatible" and ("post" in str(Version(case["v"])) or Version(case["v"]).epoch):
                acc.nontriv([ta, tb])
            if not (a == b and b == a and hash(a) == hash(b)):
                acc.fail(kind, f"twin:{name}:same-set-by-definition-but-unequal", case, expected=f"parse({ta!r}) == {'~' if complement else ''}parse({tb!r})", got={"a": describe(a), "b": describe(b)})
        return
    leaves = []
    if kind == "cellpair":
        pts = [Version(x) for x in case["pts"]]
        a = build(case["a"], pts, universal=case.get("univ", "range"))
        b = build(case["b"], pts, universal=case.get("univ", "range"))
        op = case["op"]
        r = ~a if op == "not" else (a & b if op == "and" else a | b)
        steps = [(op, (a,) if op == "not" else (a, b), r)]
        # the canonical object of the expected set and one neighbour, as extra comparands
        full = (1 << (2 * len(pts) + 1)) - 1
        exp = full & ~case["a"] if op == "not" else (case["a"] & case["b"] if op == "and" else case["a"] | case["b"])
        extra = [build(exp, pts, universal=case.get("univ", "range")), build(exp ^ (1 << ((case["a"] + case["b"]) % (2 * len(pts) + 1))), pts)]
    else:
        steps = []
        extra = []
        try:
            a = _collect(case["a"], steps, leaves)
            b = _collect(case["b"], steps, leaves)
        except specops.LeafError as e:
            acc.discarded[f"leaf-does-not-parse:{e}"] += 1
            return
        steps.append(("and", (a, b), a & b))
        steps.append(("or", (a, b), a | b))
        steps.append(("not", (a,), ~a))
    results = [("parse", (), l) for l in leaves] + steps
    malformed = []
    for op, operands, r in results:
        probs = canonical_problems(r)
        if probs:
            acc.fail(kind, f"{op}:non-canonical:{probs[0]}", case, expected="canonical shape", got={"problems": probs, "result": describe(r)})
            try:
                bounds(r, *operands)
            except ModelError:
                malformed.append(r)
            continue
        try:
            bounds(r, *operands)
        except ModelError:  # an operand produced by an earlier (already reported) step is malformed
            malformed.append(r)
            continue
        bs = bounds(r)
        m = cellmask(r, bs)
        full = (1 << (2 * len(bs) + 1)) - 1
        acc.oracle_evaluations += 1
        if r.is_empty() != (m == 0):
            acc.fail(kind, f"{op}:is_empty", case, expected=(m == 0), got={"is_empty": r.is_empty(), "result": describe(r)})
        if r.is_any() != (m == full):
            acc.fail(kind, f"{op}:is_any", case, expected=(m == full), got={"is_any": r.is_any(), "result": describe(r)})
        try:
            ok, exp_cells, got_cells, bs2 = specops.step_ok(op, operands, r) if operands else (True, 0, 0, [])
        except ModelError:
            ok = True
        if not ok:
            # the result stands for the set its operands define: it must be (==) the canonical object of that set
            canon = build(exp_cells, bs2)
            acc.fail(kind, f"{op}:not-the-canonical-object-of-the-expected-set", case, expected=f"== {brief(canon)}", got={"result": describe(r), "operands": [describe(o) for o in operands]})
        if len(operands) == 2:
            x, y = operands
            bxy = bounds(x, y)
            mx, my = cellmask(x, bxy), cellmask(y, bxy)
            fxy = (1 << (2 * len(bxy) + 1)) - 1
            if 0 < mx < fxy and 0 < my < fxy and ((mx & my) or (mx & (my << 1)) or (mx & (my >> 1))):
                acc.nontriv([op, describe(x), describe(y)])
                acc.label(f"{op}:touch-or-overlap")
            # the statement's consequences, on this very pair
            if op == "and" and r.is_empty() != ((mx & my) == 0):
                acc.fail(kind, "and:is_empty-vs-operands", case, expected=((mx & my) == 0), got=r.is_empty())
            if op == "or" and r.is_any() != ((mx | my) == fxy):
                acc.fail(kind, "or:is_any-vs-operands", case, expected=((mx | my) == fxy), got=r.is_any())
    objs = [r for _, _, r in results if not any(r is m for m in malformed)] + extra
    for x, y in itertools.combinations(objs, 2):
        same = same_set(x, y)
        for p, q in ((x, y), (y, x)):
            eq = p == q
            if eq is not same:
                acc.fail(
                    kind,
                    "eq:" + ("same-set-but-unequal" if same else "different-set-but-equal") + f":{specops.cls(p)}x{specops.cls(q)}",
                    case,
                    expected=same,
                    got={"eq": eq, "x": describe(p), "y": describe(q)},
                )
            if (p != q) is eq:
                acc.fail(kind, "ne-inconsistent-with-eq", case, expected=not eq, got={"x": describe(p), "y": describe(q)})
    if kind == "expr" and len(steps) >= 3 and specops.interacting(a, b):
        acc.sample({"case": case, "a": brief(a), "b": brief(b), "a|b": brief(steps[-2][2]), "a&b": brief(steps[-3][2]), "is_empty": steps[-3][2].is_empty()}, "L2-expr")


def candidates(kind, case):
    if kind != "expr":
        return
    for key in ("a", "b"):
        for s in specops.tree_shrinks(case[key]):
            yield {**case, key: s}
