"""C15 - marker results are in normal form.

Every marker returned by parse_marker, &, |, only(), exclude(), without_extras() is Empty | Any |
a single atom / atom group | a conjunction/disjunction with >= 2 pairwise-distinct children none of
which is Empty, Any or a compound of the same kind (recursively).  Consequences checked on the same
objects: str() has no "<empty>" inside and no dangling operator; is_empty()/is_any() are true only
for the two special classes.
"""

from __future__ import annotations

import re
import sys

from dep_logic.markers import AnyMarker, EmptyMarker

from .. import harness
from .. import markerops as O
from . import c02

PROP = "C15"
CASE_TIMEOUT = 8.0
MOD = __name__
META = {
    "rule": "Same generators as C02/C07 (exhaustive atom tables + Hypothesis operand expressions incl. Empty/Any operands, "
    "plus only/exclude/without_extras); recursive structural validator on every produced marker. Non-trivial = the result is "
    "a compound whose operands were both compounds or shared an atom (went through union()'s candidate choice or a "
    "*_simplify path); distinct by rendered result.",
    "assumptions": ["atom groups (a == x or a == y) count as single atoms, as the statement says"],
}

_DANGLING = re.compile(r"^\s*(and|or)\b|\b(and|or)\s*$|\b(and|or)\s+(and|or)\b|\(\s*\)|\(\s*(and|or)\b|\b(and|or)\s*\)")


def tasks(tier, seed):
    global CASE_TIMEOUT
    CASE_TIMEOUT = 2.5 if tier == "quick" else 6.0
    n = 1600 if tier == "quick" else 48000
    shards = 48 if tier == "quick" else 192
    t = [(MOD, "hyp", (n // shards, seed * 1_000_003 + i, tier)) for i in range(shards)]
    for name, nsh in (("py-pairs", 16), ("str-triples", 16), ("extra-triples", 8), ("mixed-py-triples", 8), ("wide-with-neutral", 16), ("str-group-pairs", 8), ("consensus-py", 16), ("shared-child-unions", 16), ("factored-pairs", 4), ("factored-triples", 8), ("post-bound-pairs", 16)):
        for sh in range(nsh):
            t.append((MOD, "tables", (name, tier, sh, nsh)))
    return t


def tables(acc, name, tier, shard, nshards):
    layer = "L1-" + name
    acc.exhaustive_layers.add(layer)
    mod = sys.modules[MOD]
    for i, case in enumerate(c02.table_cases(name, tier)):
        if i % nshards == shard:
            harness.process(mod, acc, "family", {"names": [], **case}, layer)


def hyp(acc, n, seed, tier):
    mod = sys.modules[MOD]
    harness.run_hypothesis(acc, O.family_case(3 if tier == "quick" else 4), lambda c: harness.process(mod, acc, "family", c, "L2-hyp"), n, seed)


def evaluate(kind, case, acc):
    prod = O.produced(case)
    shapes = {lab: O.shape(m) for lab, m, _ in prod}
    for label, m, _ in prod:
        op = label.split(".")[-1].split("(")[0] if "." in label else label
        probs = O.normal_form_problems(m)
        acc.oracle_evaluations += 1
        acc.label(f"{op}:{O.shape(m)}")
        if probs:
            acc.fail(kind, f"not-normal-form:{probs[0]}|{op}", case, expected="normal form", got={"label": label, "problems": probs, "marker": str(m), "repr": _tree(m)})
            continue
        s = str(m)
        special = isinstance(m, (EmptyMarker, AnyMarker))
        if not special and ("<empty>" in s or _DANGLING.search(s) or not s.strip()):
            acc.fail(kind, f"rendering:dangling-or-empty|{op}", case, expected="well-formed text", got={"label": label, "text": s})
        if m.is_empty() != isinstance(m, EmptyMarker):
            acc.fail(kind, f"is_empty-on-{O.shape(m)}|{op}", case, expected=isinstance(m, EmptyMarker), got=m.is_empty())
        if m.is_any() != isinstance(m, AnyMarker):
            acc.fail(kind, f"is_any-on-{O.shape(m)}|{op}", case, expected=isinstance(m, AnyMarker), got=m.is_any())
        if label in ("a&b", "a|b") and O.shape(m) in ("Multi", "Union") and shapes["a"] in ("Multi", "Union") and shapes["b"] in ("Multi", "Union"):
            acc.nontriv(s)
            acc.sample({"a": O.expr_text(case["a"]), "b": O.expr_text(case["b"]), "label": label, "result": s, "tree": _tree(m)}, "compound")


def _tree(m):
    ch = getattr(m, "markers", None)
    if ch is None:
        return O.shape(m)
    return [O.shape(m), [_tree(c) for c in ch]]


def candidates(kind, case):
    yield from O.case_shrinks(case)
    if case.get("names"):
        yield {**case, "names": []}
