"""C04 - specifier membership agrees with PEP 440 (packaging) through the whole algebra.

For expression trees over PEP 440 specifier texts (&, |, ~) and final-release candidates v derived
from every bound: `v in result` and result.contains(v) equal the same Boolean combination of
packaging's SpecifierSet(leaf).contains(v).  Trees with === leaves satisfy the equation or raise
ValueError.
"""

from __future__ import annotations

import sys

from hypothesis import strategies as st
from packaging.specifiers import InvalidSpecifier as PkgInvalid
from packaging.specifiers import SpecifierSet
from packaging.version import InvalidVersion, Version

from dep_logic.specifiers import parse_version_specifier
from dep_logic.specifiers.base import VersionSpecifier

from .. import harness, specops, versions
from ..specmodel import ModelError, brief, ranges_of
from .c06 import _known_obj

PROP = "C04"
CASE_TIMEOUT = 10.0
MOD = __name__
META = {
    "rule": "Hypothesis expression trees (&, |, ~; <=5 leaves) over comma-joined PEP 440 clauses with spelled versions "
    "(v prefix, alternative pre/post/dev spellings, epochs); candidates = final releases around every bound "
    "(itself, +-1 on the last two segments, one segment shorter/longer, with and without the bound's epoch). "
    "Non-trivial = tree has >=1 operator, result neither empty nor universal, and both outcomes occur among the "
    "candidates; distinct by tree text.",
    "assumptions": [
        "packaging.specifiers.SpecifierSet.contains on final releases is the PEP 440 reference",
        "pre/post/dev/local candidates are outside the claim (interval model)",
    ],
}


def tasks(tier, seed):
    n = 2400 if tier == "quick" else 48000
    shards = 16 if tier == "quick" else 64
    t = [(MOD, "hyp", (n // shards, seed * 1_000_003 + i, tier)) for i in range(shards)]
    t.append((MOD, "fixed", ()))
    t += [(MOD, "adjacent", (i, 16, tier)) for i in range(16)]
    t += [(MOD, "cellpairs", (i, 16, tier)) for i in range(16)]
    return t


CELL_PTS = {"quick": [["1", "2", "3"]], "thorough": [["1", "2", "3"], ["1.0", "1.5", "2"], ["0.9", "1", "1!0"]]}


def mask_text(mask: int, pts) -> str:
    """PEP 440 text of a cell set over the sorted points pts (cell 2i+1 = the point pts[i], even cells = the gaps)."""
    n = 2 * len(pts) + 1
    if mask == 0:
        return "<empty>"
    if mask == (1 << n) - 1:
        return ""
    parts, i = [], 0
    while i < n:
        if not mask >> i & 1:
            i += 1
            continue
        j = i
        while j + 1 < n and mask >> (j + 1) & 1:
            j += 1
        if i == j and i % 2:
            parts.append(f"=={pts[i // 2]}")
        else:
            lo = "" if i == 0 else (f">={pts[i // 2]}" if i % 2 else f">{pts[i // 2 - 1]}")
            hi = "" if j == n - 1 else (f"<={pts[j // 2]}" if j % 2 else f"<{pts[j // 2]}")
            parts.append(",".join(x for x in (lo, hi) if x))
        i = j + 1
    return "||".join(parts)


def cellpairs(acc, shard, nshards, tier):
    """Exhaustive: every ordered pair of sets over three bounds (as texts), combined and then complemented or
    intersected once more - touching / nested / crossed bound coincidences between two unions, followed by a
    second operation (a result that is merely mis-shapen only shows in the next step)."""
    acc.exhaustive_layers.add("L1-cell-pair-trees")
    mod = sys.modules[MOD]
    for pts in CELL_PTS[tier]:
        n = 2 * len(pts) + 1
        texts = [mask_text(m, pts) for m in range(1 << n)]
        k = 0
        for ma in range(1, (1 << n) - 1):
            for mb in range(1, (1 << n) - 1):
                k += 1
                if k % nshards != shard:
                    continue
                a, b = ["leaf", texts[ma]], ["leaf", texts[mb]]
                for tree in (["not", ["or", a, b]], ["not", ["and", a, b]], ["and", ["or", a, b], ["leaf", f"=={pts[1]}"]]):
                    harness.process(mod, acc, "tree", {"tree": tree}, "L1-cell-pair-trees", isolate=False)


def adjacent(acc, shard, nshards, tier):
    """Bounds that are one release step apart with unequal written lengths (the coincidences the ~= / ==X.* /
    !=X.* renderings inspect - contains() goes through the rendered text), as computed (not parsed) ranges."""
    from .c06 import adjacency_family

    mod = sys.modules[MOD]
    stride = 7 if tier == "quick" else 1
    for i, (l, r) in enumerate(adjacency_family()):
        if i % stride or (i // stride) % nshards != shard:
            continue
        for tree in (
            ["and", ["leaf", f">={l}"], ["leaf", f"<{r}"]],
            ["not", ["or", ["leaf", f"<{l}"], ["leaf", f">={r}"]]],
            ["or", ["leaf", f"<{l}"], ["leaf", f">={r}"]],
            ["and", ["leaf", f">{l}"], ["leaf", f"<={r}"]],
        ):
            harness.process(mod, acc, "tree", {"tree": tree}, "adjacent-bounds")


def strategy(tier):
    leaf = st.one_of(
        versions.comma_set(versions.spelled_version, max_clauses=3),
        versions.comma_set(versions.canonical_version, max_clauses=3),
        versions.comma_set(versions.canonical_version, max_clauses=2, arbitrary=True),
    )
    return versions.spec_expr(leaf, max_leaves=3 if tier == "quick" else 5).map(lambda t: {"tree": t})


def hyp(acc, n, seed, tier):
    mod = sys.modules[MOD]
    harness.run_hypothesis(acc, strategy(tier), lambda c: harness.process(mod, acc, "tree", c, "hyp-trees"), n, seed)


FIXED = [
    "<empty>", "", ">=1.0", "==1.0", "!=1.0", "~=1.2", "~=1.2.3", "==1.*", "!=1.2.*", ">=1,<2", "<1||>=2",
    "~=1!2.3", "==1!2.*", "~=1.2c1", "~=1.2.post1", "~=1.2.dev1", ">1.0.post1", "<1.0.post1", "<=1.0a1", "===1.0",
]


def fixed(acc):
    mod = sys.modules[MOD]
    for t in FIXED:
        for tree in (["leaf", t], ["not", ["leaf", t]], ["and", ["leaf", t], ["leaf", ">=1.0"]], ["or", ["leaf", t], ["leaf", "<1.0"]]):
            if t == "<empty>" and tree[0] == "leaf":
                pass
            harness.process(mod, acc, "tree", {"tree": tree}, "fixed-shapes")


def leaf_texts(tree):
    if tree[0] == "leaf":
        return [tree[1]]
    return [t for ch in tree[1:] for t in leaf_texts(ch)]


def candidates_for(texts) -> list[str]:
    out: dict[str, None] = {}
    for t in texts:
        for part in t.split("||"):
            try:
                ss = SpecifierSet(part)
            except PkgInvalid:
                continue
            for sp in ss:
                vt = sp.version[:-2] if sp.version.endswith(".*") else sp.version
                try:
                    v = Version(vt)
                except InvalidVersion:
                    continue
                rel = list(v.release)
                variants = [rel, rel + [0], rel + [1], rel[:-1] + [rel[-1] + 1], rel[:-1] + [max(rel[-1] - 1, 0)]]
                if len(rel) > 1:
                    variants += [rel[:-1], rel[:-2] + [rel[-2] + 1], rel[:-2] + [rel[-2] + 1, 0], rel[:-2] + [max(rel[-2] - 1, 0), 99]]
                eps = {"", f"{v.epoch}!" if v.epoch else ""}
                if v.epoch:
                    eps.add(f"{v.epoch + 1}!")
                for ep in eps:
                    for r in variants:
                        out[ep + ".".join(map(str, r))] = None
    for extra in ("0", "1", "99"):
        out[extra] = None
    return list(out)


def ref(tree, v, cache):
    tag = tree[0]
    if tag == "leaf":
        t = tree[1]
        if t == "<empty>":
            return False
        ss = cache.get(t)
        if ss is None:
            ss = cache[t] = [SpecifierSet(p) for p in t.split("||")]
        return any(s.contains(v) for s in ss)
    if tag == "not":
        return not ref(tree[1], v, cache)
    if tag == "and":
        return ref(tree[1], v, cache) and ref(tree[2], v, cache)
    return ref(tree[1], v, cache) or ref(tree[2], v, cache)


def is_known(kind, case):
    return None


def evaluate(kind, case, acc):
    tree = case["tree"]
    texts = leaf_texts(tree)
    arbitrary = any("===" in t for t in texts)
    steps: list = []
    try:
        result = specops.eval_tree(tree, steps)
    except specops.LeafError as e:
        acc.discarded[f"leaf-does-not-parse:{e}"] += 1
        return
    except ValueError as e:
        if arbitrary and not isinstance(e, (InvalidVersion,)):
            acc.discarded["===:ValueError-allowed"] += 1
            return
        raise
    # S4a (known finding of C06) makes contains() of such a range go through a lossy text
    for o in [result] + [r for _, _, r in steps]:
        k = _known_obj(o) if harness.KNOWN_ENABLED else None
        if k:
            acc.excluded_known[k] += 1
            return
    cands = candidates_for(texts)
    cache: dict = {}
    outcomes = set()
    has_contains = isinstance(result, VersionSpecifier)
    for v in cands:
        exp = ref(tree, v, cache)
        outcomes.add(exp)
        acc.oracle_evaluations += 1
        try:
            got_in = v in result
            if has_contains or type(result).__name__ in ("EmptySpecifier", "AnySpecifier"):
                try:
                    got_c = result.contains(v)  # the property names both spellings of membership
                except AttributeError as e:
                    acc.fail(kind, f"membership:contains-unavailable:{type(result).__name__}", {"tree": tree, "v": v}, expected=exp, got=f"AttributeError: {e}")
                    break
            else:
                got_c = got_in
        except ValueError:
            if arbitrary:
                acc.discarded["===:ValueError-allowed"] += 1
                continue
            raise
        if got_in is not exp or got_c is not exp:
            which = "in" if got_in is not exp else "contains"
            acc.fail(
                kind,
                f"membership:{which}:{type(result).__name__}:" + ("admits-extra" if not exp else "rejects-member"),
                {"tree": tree, "v": v},
                expected=exp,
                got={"in": got_in, "contains": got_c, "result": specops_desc(result)},
            )
            break
    nontrivial = bool(steps) and not result.is_empty() and not result.is_any() and len(outcomes) == 2
    acc.label(f"class:{type(result).__name__}", "has-ops" if steps else "leaf-only", "===" if arbitrary else "no-===")
    if nontrivial:
        acc.nontriv(tree)
        acc.sample({"tree": tree, "result": specops_desc(result), "candidates": cands[:8], "n_candidates": len(cands)}, "hyp-trees")


def specops_desc(r):
    try:
        return brief(r)
    except Exception:  # noqa: BLE001
        return type(r).__name__


def candidates(kind, case):
    for s in specops.tree_shrinks(case["tree"]):
        yield {**case, "tree": s}
