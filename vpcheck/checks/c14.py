"""C14 - Boolean-algebra laws.

Specifiers: laws as equalities (==) of the returned objects.
  L1 exhaustive: every ordered triple of canonical cell sets over k=2 bounds (quick) / k=3 (thorough);
  L2 Hypothesis: triples of expression trees (text + cell-constructed leaves, any version shape).
Markers (laws without ~, truth-table equality): see markerlaws (added by the marker layer).
No reference model is involved: a law holds or fails by itself.
"""

from __future__ import annotations

import sys

from hypothesis import strategies as st
from packaging.version import Version

from .. import harness, specops, versions
from ..specmodel import ASSIGNMENTS, ModelError, brief, build, describe, same_set

PROP = "C14"
CASE_TIMEOUT = 20.0
MOD = __name__
META = {
    "rule": "Specifiers: L1 all ordered triples of canonical cell sets over k bounds (exhaustive) and L2 Hypothesis "
    "triples of expression trees; 19 laws per triple checked with == on returned objects. Markers: Hypothesis "
    "triples of marker trees, 12 laws (no ~) compared by truth table on the environment grid. Non-trivial = "
    "the three operands are pairwise different in meaning and at least two interact (share a bound or overlap / "
    "share a variable); distinct by operand structure.",
    "assumptions": ["laws are checked with the library's own ==; no reference model"],
}


def laws(a, b, c):
    """(name, lhs, rhs) generators; evaluated lazily so an exception is attributed to the law."""
    yield "comm-and", lambda: a & b, lambda: b & a
    yield "comm-or", lambda: a | b, lambda: b | a
    yield "assoc-and", lambda: (a & b) & c, lambda: a & (b & c)
    yield "assoc-or", lambda: (a | b) | c, lambda: a | (b | c)
    yield "idem-and", lambda: a & a, lambda: a
    yield "idem-or", lambda: a | a, lambda: a
    yield "absorb-and-or", lambda: a & (a | b), lambda: a
    yield "absorb-or-and", lambda: a | (a & b), lambda: a
    yield "distrib-and-over-or", lambda: a & (b | c), lambda: (a & b) | (a & c)
    yield "distrib-or-over-and", lambda: a | (b & c), lambda: (a | b) & (a | c)
    yield "involution", lambda: ~~a, lambda: a
    yield "demorgan-and", lambda: ~(a & b), lambda: ~a | ~b
    yield "demorgan-or", lambda: ~(a | b), lambda: ~a & ~b


def check_triple(acc, kind, case, a, b, c):
    for name, lf, rf in laws(a, b, c):
        l, r = lf(), rf()
        acc.oracle_evaluations += 1
        if not (l == r and r == l):
            acc.fail(kind, f"spec:{name}", case, expected=f"lhs == rhs", got={"lhs": describe(l), "rhs": describe(r)})
    x = a & ~a
    if not x.is_empty():
        acc.fail(kind, "spec:a&~a-not-empty", case, expected="is_empty()", got=describe(x))
    y = a | ~a
    if not y.is_any():
        acc.fail(kind, "spec:a|~a-not-universal", case, expected="is_any()", got=describe(y))


def tasks(tier, seed):
    t = []
    plan = [(2, a, u, 2, 1, 0) for a in range(5) for u in ("range", "any")]
    if tier == "quick":
        # a 1/8 slice (chosen by the seed) of the k=3 triples; the full space is the thorough tier's
        plan += [(3, seed % 5, "range", 16, 8, seed % 8)]
    else:
        plan += [(3, a, "range", 32, 1, 0) for a in range(5)]
    for k, a, u, nsh, nslices, sl in plan:
        for sh in range(nsh):
            t.append((MOD, "exh", (k, a, u, sh, nsh, nslices, sl)))
    n = 2400 if tier == "quick" else 48000
    shards = 16 if tier == "quick" else 48
    for i in range(shards):
        t.append((MOD, "hyp", (n // shards, seed * 1_000_003 + i, tier)))
    t.append((MOD, "arbpairs", ()))
    try:
        from . import c14m

        t += c14m.tasks(tier, seed)
    except ImportError:
        pass
    return t


def exh(acc, k, asg, univ, shard, nshards, nslices, sl):
    layer = f"spec-L1-k{k}" + (f"-slice1of{nslices}" if nslices > 1 else "")
    if nslices == 1:
        acc.exhaustive_layers.add(layer)
    names = ASSIGNMENTS[asg][:k]
    pts = [Version(x) for x in names]
    n = 2 * k + 1
    full = (1 << n) - 1
    objs = [build(m, pts, universal=univ) for m in range(1 << n)]
    mod = sys.modules[MOD]
    for ma in range(1 << n):
        a = objs[ma]
        for mb in range(1 << n):
            pair = ma * (1 << n) + mb
            if pair % nshards != shard or (pair // nshards) % nslices != sl:
                continue
            b = objs[mb]
            for mc in range(1 << n):
                c = objs[mc]
                acc.evaluations += 1
                acc.layers[layer] += 1
                case = None
                try:
                    for name, lf, rf in laws(a, b, c):
                        l, r = lf(), rf()
                        if not (l == r and r == l):
                            case = case or {"pts": names, "a": ma, "b": mb, "c": mc, "univ": univ}
                            acc.fail("celltriple", f"spec:{name}", case, expected="lhs == rhs", got={"lhs": describe(l), "rhs": describe(r)})
                    if mb == 0 and mc == 0:
                        if not (a & ~a).is_empty():
                            acc.fail("celltriple", "spec:a&~a-not-empty", {"pts": names, "a": ma, "b": mb, "c": mc, "univ": univ}, expected="is_empty()", got=describe(a & ~a))
                        if not (a | ~a).is_any():
                            acc.fail("celltriple", "spec:a|~a-not-universal", {"pts": names, "a": ma, "b": mb, "c": mc, "univ": univ}, expected="is_any()", got=describe(a | ~a))
                except Exception:  # noqa: BLE001
                    harness.process(mod, acc, "celltriple", {"pts": names, "a": ma, "b": mb, "c": mc, "univ": univ}, layer, isolate=False)
                    continue
                if len({ma, mb, mc}) == 3 and 0 < ma < full and 0 < mb < full and 0 < mc < full:
                    acc.nontrivial_exhaustive += 1
    acc.oracle_evaluations += acc.layers[layer] * 13
    if shard == 0:
        x, y, z = objs[11 % (full + 1)], objs[(21 + 5 * asg) % (full + 1)], objs[(6 + 3 * asg) % (full + 1)]
        acc.sample({"pts": names, "a": brief(x), "b": brief(y), "c": brief(z), "a&(b|c)": brief(x & (y | z)), "(a&b)|(a&c)": brief((x & y) | (x & z))}, layer)


ARB_POOL = ["===1.0RC1", "===1.0rc1", "===1.0", "===1.0.0", ">=1.0", "<2", "==1.0"]


def arbpairs(acc):
    """=== clauses (string equality) against each other and against ranges: only commutativity and idempotence are
    asked (the other laws mix packaging's text rules for === with the interval reading), a raise on both sides counts
    as agreement."""
    import itertools

    mod = sys.modules[MOD]
    acc.exhaustive_layers.add("spec-L1-arbitrary-pairs")
    for a, b in itertools.product(ARB_POOL, repeat=2):
        harness.process(mod, acc, "arbpair", {"a": a, "b": b}, "spec-L1-arbitrary-pairs", isolate=False)


def _arb(f):
    try:
        return ("ok", f())
    except (ValueError, NotImplementedError, TypeError) as e:
        return ("raises", type(e).__name__)


def strategy(tier):
    tree = versions.spec_expr_mixed(max_sets=2 if tier == "quick" else 3, max_leaves=2 if tier == "quick" else 4)
    return st.fixed_dictionaries({"a": tree, "b": tree, "c": tree})


def hyp(acc, n, seed, tier):
    mod = sys.modules[MOD]
    harness.run_hypothesis(acc, strategy(tier), lambda c: harness.process(mod, acc, "spectriple", c, "spec-L2-expr"), n, seed)


def is_known(kind, case):
    if kind.startswith("marker"):
        from .. import markerops

        # S4a through markers: V >= lo merged with V < "X.postN" renders as ~=lo (see known_findings.json)
        return "S4a-post-release-upper-bound" if markerops.s4a_case(case) else None
    return None


def evaluate(kind, case, acc):
    if kind == "arbpair":
        from dep_logic.specifiers import parse_version_specifier as P

        a, b = P(case["a"]), P(case["b"])
        for name, l, r in (("comm-and", lambda: a & b, lambda: b & a), ("comm-or", lambda: a | b, lambda: b | a), ("idem-and", lambda: a & a, lambda: a), ("idem-or", lambda: a | a, lambda: a)):
            x, y = _arb(l), _arb(r)
            acc.oracle_evaluations += 1
            same = x == y if x[0] == y[0] == "ok" else (x[0] == y[0] == "raises")
            if x[0] == y[0] == "ok":
                same = x[1] == y[1] and y[1] == x[1]
            if not same:
                acc.fail(kind, f"spec:arbitrary:{name}", case, expected="both sides equal (or both raise)", got={"left": str(x[1]), "right": str(y[1])})
        return
    if kind.startswith("marker"):
        from . import c14m

        return c14m.evaluate(kind, case, acc)
    if kind == "celltriple":
        pts = [Version(x) for x in case["pts"]]
        a, b, c = (build(case[x], pts, universal=case.get("univ", "range")) for x in "abc")
    else:
        try:
            a, b, c = (specops.eval_tree(case[x], []) for x in "abc")
        except specops.LeafError as e:
            acc.discarded[f"leaf-does-not-parse:{e}"] += 1
            return
        try:
            distinct = not same_set(a, b) and not same_set(b, c) and not same_set(a, c)
        except ModelError as e:
            acc.fail(kind, f"spec:operand-class-{e}", case, expected="Empty/Any/Range/Union", got=[describe(x) for x in (a, b, c)])
            return
        inter = specops.interacting(a, b) or specops.interacting(b, c) or specops.interacting(a, c)
        acc.label(f"spec:distinct={distinct},interacting={inter}")
        if distinct and inter:
            acc.nontriv([describe(a), describe(b), describe(c)])
            acc.sample({"case": case, "a": brief(a), "b": brief(b), "c": brief(c), "a|(b&c)": brief(a | (b & c))}, "spec-L2-expr")
    check_triple(acc, kind, case, a, b, c)


def candidates(kind, case):
    if kind.startswith("marker"):
        from . import c14m

        yield from c14m.candidates(kind, case)
        return
    if kind != "spectriple":
        return
    for key in "abc":
        for s in specops.tree_shrinks(case[key]):
            yield {**case, key: s}
    for key in "abc":
        for other in "abc":
            if other != key and case[key] != case[other]:
                yield {**case, key: case[other]}
