"""C06 - str() of every reachable specifier succeeds and parses back to an equal specifier.

Oracle: t = str(s) does not raise; parse_version_specifier(t) does not raise; the result has the
same cells as s (order-cell model) and compares == to s.
  L1 exhaustive: ordered pairs of bounds from a pool of shaped versions x inclusivity, as single
     ranges and as two-range unions (-inf,x> u <y,+inf), plus half-lines and points;
  L2 Hypothesis: results (and all intermediate nodes) of expression trees over parsed texts and
     cell-constructed operands.
"""

from __future__ import annotations

import itertools
import sys

from hypothesis import strategies as st
from packaging.version import Version

from dep_logic.specifiers import RangeSpecifier, UnionSpecifier, parse_version_specifier

from .. import harness, specops, versions
from ..specmodel import ModelError, bounds, brief, cellmask, describe, from_desc, ranges_of

PROP = "C06"
CASE_TIMEOUT = 10.0
MOD = __name__
META = {
    "rule": "L1: every ordered pair of bounds from a pool of ~110 shaped versions x 4 inclusivity combinations as one "
    "range and as a 2-range union, half-lines, points (exhaustive over the pool); L2: Hypothesis expression-tree "
    "results incl. intermediate nodes. Non-trivial = the rendering used a shortened form (~=, ==V, ==X.*, !=V, "
    "!=X.*) or the || syntax; distinct by object structure.",
    "assumptions": ["meaning compared on the order-cell model (structural fields) and with the library's =="],
}

_RELEASES = ["0", "0.9", "1", "1.0", "1.2", "1.2.0", "1.2.3", "1.2.4", "1.2.3.4", "1.3", "1.3.0", "1.9", "1.10", "2", "2.0", "2.0.0", "10.0"]
_SUFFIXES = ["", ".post1", ".post0", "a1", "rc1", ".dev0"]
_EPOCHS = ["1!0", "2!0", "1!0.0", "1!1.2", "1!2", "1!2.0", "1!1.3.0", "1!1.2.0", "1!1.2.post1", "1!2.0.dev0"]
POOL = [r + s for r in _RELEASES for s in _SUFFIXES] + _EPOCHS


def short_forms(t: str) -> list[str]:
    out = []
    if "~=" in t:
        out.append("~=")
    if ".*" in t:
        out.append("!=X.*" if "!=" in t else "==X.*")
    elif "!=" in t:
        out.append("!=V")
    elif "==" in t:
        out.append("==V")
    if "||" in t:
        out.append("||")
    if t == "<empty>":
        out.append("<empty>")
    return out


def is_known(kind, case):
    """S4a: a range rendered `~=` although its exclusive upper bound is a post-release
    (pinned by tests/specifier/test_range.py::test_range_str_normalization)."""
    if kind != "obj":
        return None
    return _known_obj(from_desc(case["obj"]))


def _known_obj(s):
    rs = s.ranges if isinstance(s, UnionSpecifier) else [s] if isinstance(s, RangeSpecifier) else []
    for r in rs:
        if (
            r.min is not None
            and r.max is not None
            and r.include_min
            and not r.include_max
            and r.max.is_postrelease
            and not r.max.is_prerelease
            and r.simplified is None
        ):
            try:
                if str(r).startswith("~="):
                    return "S4a"
            except Exception:  # noqa: BLE001
                return None
    return None


def check_obj(acc, kind, case, s, where="result"):
    known = _known_obj(s) if harness.KNOWN_ENABLED else None
    if known:
        acc.excluded_known[known] += 1
        return
    try:
        t = str(s)
    except Exception as e:  # noqa: BLE001
        acc.fail(kind, f"str-raises:{type(e).__name__}:{specops.cls(s)}", case, expected="str() succeeds", got={"exc": f"{type(e).__name__}: {e}", "obj": describe(s)})
        return
    forms = short_forms(t)
    for f in forms:
        acc.label("form:" + f)
    if forms:
        acc.nontriv(describe(s))
    try:
        back = parse_version_specifier(t)
    except Exception as e:  # noqa: BLE001
        acc.fail(kind, f"reparse-raises:{type(e).__name__}:{'+'.join(forms) or 'plain'}", case, expected="parses", got={"text": t, "exc": f"{type(e).__name__}: {str(e)[:120]}", "obj": describe(s)})
        return
    try:
        bs = bounds(s, back)
        ms, mb = cellmask(s, bs), cellmask(back, bs)
    except ModelError as e:
        acc.fail(kind, f"reparse-class:{e}", case, expected="interval specifier", got={"text": t})
        return
    acc.oracle_evaluations += 1
    if ms != mb:
        wider = "widens" if mb & ~ms else "narrows"
        acc.fail(kind, f"meaning:{wider}:{'+'.join(forms) or 'plain'}", case, expected={"obj": brief(s)}, got={"text": t, "reparsed": brief(back)})
    elif not (back == s and s == back):
        acc.fail(kind, f"same-set-but-unequal:{'+'.join(forms) or 'plain'}", case, expected="==", got={"text": t, "obj": describe(s), "reparsed": describe(back)})
    return t


def adjacency_family():
    """Bound pairs aimed at the shortening heuristics: the right bound is the left release (zero-padded 0-2
    segments) bumped by one at some position, itself zero-padded 0-2 segments; suffixes and epochs varied."""
    bases = [(1,), (1, 2), (1, 2, 3), (0,), (0, 9), (2, 0), (1, 0), (1, 9), (1, 10), (3, 7)]
    sufs = ["", ".post1", ".dev0", "a1"]
    seen = set()
    for base in bases:
        for padl in range(3):
            left_rel = list(base) + [0] * padl
            # the bump may sit beyond the left bound's written length (virtual zeros): <1 || >=1.1.0
            work = left_rel + [0] * (3 - padl)
            for pos in range(len(work)):
                bumped = work[:pos] + [work[pos] + 1]
                for padr in range(3):
                    right_rel = bumped + [0] * padr
                    for sl in sufs:
                        for sr in sufs:
                            for epl, epr in (("", ""), ("1!", "1!"), ("", "1!")):
                                l = epl + ".".join(map(str, left_rel)) + sl
                                r = epr + ".".join(map(str, right_rel)) + sr
                                if (l, r) not in seen:
                                    seen.add((l, r))
                                    yield l, r


def tasks(tier, seed):
    t = [(MOD, "exh", (sh, 16)) for sh in range(16)]
    t += [(MOD, "adj", (sh, 16)) for sh in range(16)]
    n = 4000 if tier == "quick" else 80000
    shards = 16 if tier == "quick" else 64
    for i in range(shards):
        t.append((MOD, "hyp", (n // shards, seed * 1_000_003 + i, tier)))
    return t


def exh(acc, shard, nshards):
    layer = "L1-bound-pairs"
    acc.exhaustive_layers.add(layer)
    V = [Version(x) for x in dict.fromkeys(POOL)]  # spellings kept: 1.2 and 1.2.0 are different shapes
    mod = sys.modules[MOD]

    def go(s):
        harness.process(mod, acc, "obj", {"obj": describe(s)}, layer, isolate=False)

    for i, a in enumerate(V):
        if i % nshards != shard:
            continue
        for inc in (False, True):
            go(RangeSpecifier(min=a, include_min=inc))
            go(RangeSpecifier(max=a, include_max=inc))
        go(RangeSpecifier(min=a, max=a, include_min=True, include_max=True))
        go(UnionSpecifier((RangeSpecifier(max=a), RangeSpecifier(min=a))))
        for b in V:
            if a < b:
                for im, iM in itertools.product((False, True), repeat=2):
                    go(RangeSpecifier(min=a, max=b, include_min=im, include_max=iM))
                    go(UnionSpecifier((RangeSpecifier(max=a, include_max=im), RangeSpecifier(min=b, include_min=iM))))
    if shard == 0:
        for s in (RangeSpecifier(min=Version("1.2"), max=Version("2"), include_min=True), UnionSpecifier((RangeSpecifier(max=Version("1.2.0")), RangeSpecifier(min=Version("1.3.0"), include_min=True)))):
            acc.sample({"obj": brief(s), "str": str(s), "reparsed": brief(parse_version_specifier(str(s)))}, layer)


def adj(acc, shard, nshards):
    layer = "L1-adjacent-releases"
    acc.exhaustive_layers.add(layer)
    mod = sys.modules[MOD]
    for i, (l, r) in enumerate(adjacency_family()):
        if i % nshards != shard:
            continue
        a, b = Version(l), Version(r)
        if not a < b:
            continue
        for im, iM in itertools.product((False, True), repeat=2):
            harness.process(mod, acc, "obj", {"obj": describe(RangeSpecifier(min=a, max=b, include_min=im, include_max=iM))}, layer, isolate=False)
            harness.process(mod, acc, "obj", {"obj": describe(UnionSpecifier((RangeSpecifier(max=a, include_max=im), RangeSpecifier(min=b, include_min=iM))))}, layer, isolate=False)


def strategy(tier):
    return versions.spec_expr_mixed(max_sets=3 if tier == "quick" else 4, max_leaves=3 if tier == "quick" else 5).map(lambda t: {"tree": t})


def hyp(acc, n, seed, tier):
    mod = sys.modules[MOD]
    harness.run_hypothesis(acc, strategy(tier), lambda c: harness.process(mod, acc, "expr", c, "L2-expr"), n, seed)


def evaluate(kind, case, acc):
    if kind == "obj":
        check_obj(acc, kind, case, from_desc(case["obj"]))
        return
    steps = []
    leaves = []
    try:
        root = specops.eval_tree(case["tree"], steps)
    except specops.LeafError as e:
        acc.discarded[f"leaf-does-not-parse:{e}"] += 1
        return
    seen = []
    for o in [root] + [r for _, _, r in steps] + [x for _, ops, _ in steps for x in ops]:
        if any(o is p for p in seen):
            continue
        seen.append(o)
        try:
            ranges_of(o)
        except ModelError:
            continue
        t = check_obj(acc, kind, case, o)
    if steps:
        try:
            acc.sample({"case": case, "result": brief(root), "str": str(root)}, "L2-expr")
        except Exception:  # noqa: BLE001
            pass


def candidates(kind, case):
    if kind == "expr":
        for s in specops.tree_shrinks(case["tree"]):
            yield {"tree": s}
    elif kind == "obj":
        d = case["obj"]
        if len(d["ranges"]) > 1:
            for i in range(len(d["ranges"])):
                rs = d["ranges"][:i] + d["ranges"][i + 1 :]
                yield {"obj": {"cls": "UnionSpecifier" if len(rs) > 1 else "RangeSpecifier", "ranges": rs}}
