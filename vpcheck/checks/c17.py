"""C17 - parse_version_specifier accepts exactly PEP 440 specifier sets (plus || and <empty>).

Differential against packaging.specifiers.SpecifierSet:
  accepts  => parse_version_specifier returns a BaseSpecifier (and from_specifierset does not raise)
  rejects  => dep-logic raises its own InvalidSpecifier and nothing else.
`+local` operands are outside every specifier claim and are skipped.
"""

from __future__ import annotations

import sys

from hypothesis import strategies as st
from packaging.specifiers import InvalidSpecifier as PkgInvalid
from packaging.specifiers import SpecifierSet

from dep_logic.specifiers import BaseSpecifier, from_specifierset, parse_version_specifier
from dep_logic.specifiers import InvalidSpecifier as DepInvalid

from .. import harness, versions

PROP = "C17"
CASE_TIMEOUT = 5.0
MOD = __name__
META = {
    "rule": "Hypothesis strings: (a) valid comma sets from the clause grammar with spelled versions and blanks, "
    "(b) one-edit near misses of valid strings (delete/duplicate/replace a character, unknown operators, "
    "one-segment ~=, misplaced wildcards, stray commas, trailing junk), (c) ||-joins and <empty>; thorough adds a "
    "coverage-guided atheris campaign on raw bytes with the same oracle. Non-trivial = valid string using ~=, a "
    "wildcard, an epoch, a pre/post/dev segment or a non-canonical spelling, or an invalid string one edit away "
    "from a valid one; distinct by text.",
    "assumptions": ["packaging.specifiers.SpecifierSet defines the accepted language", "+local operands skipped"],
}

_JUNK = st.sampled_from([";", "x", "*", "!", ".", "=", "~", "<", " 1", ".*", "+", "|", "&", "(", "-"])
_BADOPS = st.sampled_from(["=", "~>", "<>", "=>", "=<", "~", "!", "====", "^", "~=="])


@st.composite
def near_miss(draw):
    base = draw(versions.comma_set(versions.spelled_version, max_clauses=3))
    k = draw(st.sampled_from(range(9)))
    if not base:
        base = ">=1.0"
    i = draw(st.integers(0, max(0, len(base) - 1)))
    if k == 0:
        return base[:i] + base[i + 1 :]
    if k == 1:
        return base[:i] + base[i] + base[i:]
    if k == 2:
        return base[:i] + draw(_JUNK) + base[i + 1 :]
    if k == 3:
        return draw(_BADOPS) + draw(versions.spelled_version())
    if k == 4:
        return "~=" + draw(versions.spelled_version(max_len=1, min_len=1))
    if k == 5:
        op = draw(st.sampled_from([">", ">=", "<", "<=", "~=", "==", "!="]))
        v = draw(versions.spelled_version(max_len=3))
        return op + v + ".*"
    if k == 6:
        return base + draw(st.sampled_from([",", ",,", ", ,"])) + draw(st.sampled_from(["", ">=1"]))
    if k == 7:
        return base + draw(_JUNK)
    return draw(_JUNK) + base


@st.composite
def union_strings(draw):
    parts = [draw(st.one_of(versions.comma_set(versions.spelled_version), st.just("<empty>"), near_miss())) for _ in range(draw(st.sampled_from([2, 2, 3])))]
    return draw(st.sampled_from(["||", "||", " || "])).join(parts)


def strategy(tier):
    return st.one_of(
        versions.comma_set(versions.spelled_version, max_clauses=3, arbitrary=True),
        versions.comma_set(versions.spelled_version, max_clauses=3),
        versions.comma_set(versions.canonical_version, max_clauses=4),
        near_miss(),
        near_miss(),
        union_strings(),
        st.text(alphabet="0123456789.!*<>=~, abcdeprvost-_", max_size=12),
    ).map(lambda t: {"text": t})


def tasks(tier, seed):
    n = 8000 if tier == "quick" else 160000
    shards = 16 if tier == "quick" else 64
    t = [(MOD, "hyp", (n // shards, seed * 1_000_003 + i, tier)) for i in range(shards)]
    t.append((MOD, "fixed", ()))
    t += [(MOD, "cellunions", (i, 4, tier)) for i in range(4)]
    if tier == "thorough":
        for i in range(16):
            t.append((MOD, "fuzz", (seed * 101 + i, 150000)))
    return t


FIXED = [
    "", "<empty>", ">=1", "~=1.2", "~=1!2.3", "==1!2.*", "!=1!2.*", "~=v1.2", "~=1.2c1", "~=1.2.preview1", "~=1.2-r1", "~=1.2.RC1",
    "~=1.2.post1.dev1", "~=1.2_dev", "==V1.*", "== 1.0 .*", "~=1", "==1.*.0", ">=1.*", "~=1.2.*", "===abc", "=== 1.0", ">=1.0+local", "==1.0+l",
    ">=1||", "||", ">=1||<0.5||==0.7", "<empty>||>=2", ">=1,,<2", ">=1,", ",", "1.0", "=1.0", "~>1.0", ">=1 <2", ">=1;<2", " >=1 , <2 ",
    ">=01.02", "==1.0.dev", "!=2!0", "<0!1", "~=0!1.0", "==1-1", "==1.0-1.*", "~=1.0a", "~=1.0.post", "==2.0.post1.*",
]


def cellunions(acc, shard, nshards, tier):
    """L1: every set over three (thorough: also four) bounds written as ||-alternatives in EVERY order: the parser
    folds the alternatives left to right, so which neighbours meet first (touching with two exclusive ends, nested,
    point between two open ranges, ...) depends on the written order."""
    import itertools

    from .c04 import mask_text

    acc.exhaustive_layers.add("L1-alternative-orders")
    mod = sys.modules[MOD]
    k = 0
    for pts in [["1", "2", "3"], ["1.0", "1.0.1", "1!0"]] + ([["0.5", "1", "1.5", "2"]] if tier == "thorough" else []):
        n = 2 * len(pts) + 1
        for m in range(1, (1 << n) - 1):
            parts = mask_text(m, pts).split("||")
            if len(parts) < 2:
                continue
            for perm in itertools.permutations(parts):
                k += 1
                if k % nshards == shard:
                    harness.process(mod, acc, "text", {"text": "||".join(perm)}, "L1-alternative-orders")
        # alternatives that overlap or touch (">1||==1", "<=1||>=5||>1"): every ordered pair and triple of single ranges
        runs = [mask_text(((1 << (j - i + 1)) - 1) << i, pts) for i in range(n) for j in range(i, n) if not (i == 0 and j == n - 1)]
        # an alternative that is not a specifier set makes the whole string invalid, wherever it stands - also after
        # alternatives that already cover everything
        if pts == ["1", "2", "3"]:
            for a, b in itertools.product(runs, repeat=2):
                for bad in ("x", ">=", "1.0"):
                    for parts in ([a, b, bad], [a, bad, b], [bad, a, b]):
                        k += 1
                        if k % nshards == shard:
                            harness.process(mod, acc, "text", {"text": "||".join(parts)}, "L1-alternative-orders")
        for r in (2, 3):
            if r == 3 and pts != ["1", "2", "3"] and tier == "quick":
                continue
            for combo in itertools.product(runs, repeat=r):
                k += 1
                if k % nshards == shard:
                    harness.process(mod, acc, "text", {"text": "||".join(combo)}, "L1-alternative-orders")


def same_release_sets():
    """Two bounds that share epoch and release and differ only in the pre/post/dev part, with an === clause (which
    asks the computed range for membership, i.e. for its text) before, between or after them."""
    from packaging.version import Version

    tagged = ["1.0.dev1", "1.0a1", "1.0rc2", "1.0", "1.0.post1", "1", "1.post1", "2!3.1.dev1", "2!3.1.0"]
    for lo in tagged:
        for hi in tagged:
            if Version(lo) < Version(hi) and Version(lo).release[:1] == Version(hi).release[:1] and Version(lo).epoch == Version(hi).epoch:
                for t in (lo, hi):
                    a, b, c = f">={lo}", f"<{hi}", f"==={t}"
                    yield from (",".join(x) for x in ((a, b, c), (c, a, b), (a, c, b), (b, a, c)))
                yield f">={lo},<{hi},!={lo},==={hi}"


def fixed(acc):
    mod = sys.modules[MOD]
    for t in FIXED:
        harness.process(mod, acc, "text", {"text": t}, "fixed-strings")
    for t in same_release_sets():
        harness.process(mod, acc, "text", {"text": t}, "fixed-strings")


def hyp(acc, n, seed, tier):
    mod = sys.modules[MOD]
    harness.run_hypothesis(acc, strategy(tier), lambda c: harness.process(mod, acc, "text", c, "hyp-strings"), n, seed)


def fuzz(acc, seed, runs):
    """Coverage-guided layer (atheris); skipped (and counted) when atheris is unavailable."""
    from ..fuzzing import run_atheris

    run_atheris(acc, sys.modules[MOD], "text", _decode_tokens, seed, runs, max_len=24, layer="atheris-tokens", seeds=[bytes([1, 20, 12, 21]), bytes([4, 20, 12, 21, 12, 22]), bytes([2, 20, 12, 13])], ascii_only=False)


_TOKENS = [">=", "<=", "==", "!=", "~=", "===", ">", "<", ",", "||", " ", "<empty>", ".", "*", "!", "+", "-", "_", "v", "a",
           "0", "1", "2", "3", "9", "10", "b", "rc", "c", "post", "dev", "alpha", "pre", "r", "rev", "x", ".*", "01", "1!", ".0", ".post1", ".dev0", "a1"]


def _decode_tokens(data: bytes):
    """Structure-aware layer: every byte picks a token, so that mutations stay inside the specifier grammar's
    alphabet and coverage feedback comes from dep-logic's own version arithmetic rather than from C regexes."""
    return {"text": "".join(_TOKENS[b % len(_TOKENS)] for b in data)}


def reference_accepts(text: str):
    """True / False / None (= outside the claim)."""
    if "+" in text:
        return None
    if text == "<empty>":
        return True
    if "||" in text:
        if "===" in text:
            return None  # union with an arbitrary-equality clause is documented as unsupported (ValueError, see C04)
        parts = text.split("||")
        verdicts = [True if p == "<empty>" else _pk(p) for p in parts]
        if any(p.strip() == "" for p in parts):
            return None  # empty alternative: nothing is claimed
        if all(verdicts):
            return True
        return False
    return _pk(text)


def _pk(t: str) -> bool:
    try:
        SpecifierSet(t)
        return True
    except PkgInvalid:
        return False


def evaluate(kind, case, acc):
    text = case["text"]
    exp = reference_accepts(text)
    if exp is None:
        acc.discarded["outside-claim(+local, empty alternative, || with ===)"] += 1
        return
    acc.oracle_evaluations += 1
    try:
        r = parse_version_specifier(text)
        got, err = True, None
    except DepInvalid as e:
        got, err = False, e
    except Exception as e:  # noqa: BLE001
        got, err = False, e
    cls = "valid" if exp else "invalid"
    acc.label(cls)
    feats = [f for f, m in (("~=", "~=" in text), ("wildcard", ".*" in text), ("epoch", "!" in text.replace("!=", "")), ("||", "||" in text), ("===", "===" in text)) if m]
    for f in feats:
        acc.label(f"{cls}:{f}")
    if exp and (feats or any(ch.isalpha() for ch in text)):
        acc.nontriv(text)
        acc.sample({"text": text, "reference": "accepts", "dep_logic": type(r).__name__ if got else repr(err)}, "valid")
    if not exp and len(text) > 2:
        acc.nontriv(text)
        acc.sample({"text": text, "reference": "rejects", "dep_logic": "returns " + type(r).__name__ if got else type(err).__name__}, "invalid")
    if exp:
        if not got:
            acc.fail(kind, f"rejects-valid:{type(err).__name__}", case, expected="a BaseSpecifier", got=f"{type(err).__name__}: {str(err)[:150]}")
        elif not isinstance(r, BaseSpecifier):
            acc.fail(kind, "returns-non-specifier", case, expected="BaseSpecifier", got=type(r).__name__)
        if "||" not in text and text != "<empty>":
            try:
                from_specifierset(SpecifierSet(text))
            except Exception as e:  # noqa: BLE001
                acc.fail(kind, f"from_specifierset-raises:{type(e).__name__}", case, expected="never raises", got=f"{type(e).__name__}: {str(e)[:150]}")
    else:
        if got:
            acc.fail(kind, "accepts-invalid", case, expected="InvalidSpecifier", got=f"returned {type(r).__name__}: {r!s:.80}")
        elif type(err) is not DepInvalid and not isinstance(err, DepInvalid):
            acc.fail(kind, f"wrong-exception:{type(err).__name__}", case, expected="dep_logic InvalidSpecifier", got=f"{type(err).__name__}: {str(err)[:150]}")


def candidates(kind, case):
    t = case["text"]
    for i in range(len(t)):
        yield {"text": t[:i] + t[i + 1 :]}
    for part in t.replace("||", ",").split(","):
        if part and part != t:
            yield {"text": part}
