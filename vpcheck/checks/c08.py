"""C08 - wheel python/ABI compatibility = some Python admitted by requires_python can load it.

Reference: rule predicate written from the statement (tagsoracle.python_abi_oracle), deciding
"some interpreter X.Y.Z admitted by requires_python" on a dense grid with membership taken from
packaging.SpecifierSet on the text (never from dep-logic).  Score: first three components must be
max (X, Y, rank) with native 2 > abi3 1 > none 0 over the compatible combinations.
"""

from __future__ import annotations

import itertools
import sys

from hypothesis import strategies as st
from packaging.specifiers import SpecifierSet

from dep_logic.specifiers import InvalidSpecifier
from dep_logic.tags import EnvSpec

from .. import harness
from .. import tagsoracle as T

PROP = "C08"
CASE_TIMEOUT = 20.0
MOD = __name__
META = {
    "rule": "L1: 48 fixed requires_python shapes (ranges, unions, !=X.Y.* holes, bounds inside a minor series, ~=, ==X.Y.Z, "
    "2.x) x 5 implementation/gil settings x the whole single-tag universe (cp/py/pp/pt x majors 2-3 x minors 0-20, py2/py3; "
    "abi none/abi3/cpXY[m|d|u|t|dt]/mismatching/pypyXY_pp73/pystonXY_23) - exhaustive; L2: Hypothesis requires_python texts x "
    "compressed tag sets. Non-trivial = requires_python neither universal nor empty and the tag's minor within 2 of one "
    "of its bounds (or the tag set has >1 combination); distinct by (spec, impl, tags).",
    "assumptions": [
        "Python versions are final X.Y.Z with Z <= 40; specs whose verdict would differ between that grid and a finer one (bounds inside one micro gap) are skipped and counted",
        "packaging.SpecifierSet.contains on final releases decides what requires_python admits",
    ],
}

GRID = [(x, y, z) for x in (2, 3, 4) for y in range(0, 26) for z in range(0, 41)]
RPS = [
    "", ">=3.8", ">=3.9,<3.12", "<3.10", "==3.9.*", "!=3.10.*", ">=3.8,!=3.10.*,<3.13", ">=3.9.2", ">3.9.10", "<3.9.2",
    "~=3.9", "~=3.9.1", "==3.10.5", ">=2.7,!=3.0.*,!=3.1.*,!=3.2.*", "<3||>=3.6", ">=3.10||<3.8", "==2.7.*||>=3.5", "<=3.9",
    ">3.9", ">=3.20", "<2.7", ">=3.6,<3.6.1", ">=3", "<3", "~=3.0", ">=3.13.0a1", "<3.12.0rc1", "!=3.9.1", ">=3.10,<3.10.0.post1", "==3.*",
    # unions one of whose branches ends (inclusively) exactly on a tag's X.Y
    "<=3.9||>=3.12", "<3.8||==3.10", "<=3.10||>=3.13",
    # three and more ranges, the outermost ending (inclusively) / starting exactly on a tag's X.Y
    "!=3.6.*,!=3.8.*,<=3.10", "==3.6.*||==3.8.*||==3.10.0", ">=3.7,!=3.8.*,!=3.10.*", ">=2.7,!=3.0.*,!=3.1.*,!=3.5.*,<=3.9",
    # upper bound written first (clauses are folded in written order)
    "<=3.10,>=3.8", "<3.12,>=3.9", "<=3.10,==3.10.*",
    "==3.10||==3.9.*", "==3.9.*||==3.10", "==3.10.0||~=3.9.0",
    ">=3.8,!=3.9.*,<3.11||>=3.9,!=3.11.*", "!=3.9,<3.11||>=3.9,!=3.11",
    # the same upper version twice with different inclusivity, next to an exclusive lower bound
    ">3.8,<=3.10,<3.10", ">3.8,<=3.10||>=3.7,<3.10", ">3.8,<3.10,<=3.10",
]
IMPLS = [[None, False], ["cpython", False], ["cpython", True], ["pypy", False], ["pyston", False]]
PYT = [f"{p}{x}{y}" for p in ("cp", "py", "pp", "pt") for x in (2, 3) for y in range(0, 21)] + ["py2", "py3"]


def abis_for(py):
    out = ["none", "abi3"]
    if py.startswith("cp") and len(py) > 3:
        out += [py, py + "m", py + "t", py + "d", py + "u", py + "td", py + "dm", py + "mu"]
        out += ["cp39", "cp310", "cp313t", "cp38m", "cp3", py[:-1] or py, py + "0", py + "2", py + "2t", py + "0m"]
    if py.startswith("pp"):
        out += [f"pypy{py[2:]}_pp73", "pypy39_pp73", "pypy_73", f"pypy{py[2:]}0_pp73"]
    if py.startswith("pt"):
        out += [f"pyston{py[2:]}_23", "pyston38_23"]
    if py.startswith("py"):
        out += ["cp39", py]
    return sorted(set(out))


class Admit:
    """What requires_python admits, by packaging, on the coarse (X.Y.Z) and a finer grid."""

    _cache: dict = {}

    def __init__(self, text):
        import re

        sets = [SpecifierSet(p) for p in text.split("||")] if text != "<empty>" else []
        has_pre = bool(re.search(r"\d\s*[._-]?(a|b|c|rc|alpha|beta|pre|preview|dev)\d*", text, re.I))
        self.coarse = set()
        self.probes = set()  # every admitted probe point (finals, sub-micro points, pre-releases)
        fine = set()
        for x, y, z in GRID:
            if any(s.contains(f"{x}.{y}.{z}") for s in sets):
                self.coarse.add((x, y, z))
                self.probes.add((x, y, z, 0))
            if any(s.contains(f"{x}.{y}.{z}.1") for s in sets):
                fine.add((x, y))
                self.probes.add((x, y, z, 1))
            # a pre-release of X.Y.0 lies, in the interval model, at the top of the X.(Y-1) series. When the text
            # holds no pre-/dev-release literal every bound is a final release, so that region is one interval cell
            # with the final X.(Y-1).99999: ask about that one instead - packaging's prefix matching would admit
            # 3.9.0a1 to "!=3.8.*", which the interval reading (<3.8.0 || >=3.9.0) does not
            if z == 0 and y > 0:
                if has_pre:
                    top = any(s.contains(f"{x}.{y}.0a1", prereleases=True) for s in sets)
                else:
                    top = any(s.contains(f"{x}.{y - 1}.99999") for s in sets)
                if top:
                    fine.add((x, y - 1))
                    self.probes.add((x, y, 0, -1))
        self.coarse_xy = {(x, y) for x, y, _ in self.coarse}
        # a minor series reachable only between two consecutive micro releases, or only through
        # pre-releases of the next series: the verdict depends on what counts as "a Python version"
        self.ambiguous = bool(fine - self.coarse_xy)
        self.universal = len(self.coarse) == len(GRID)
        self.empty = not self.coarse

    @classmethod
    def of(cls, text):
        a = cls._cache.get(text)
        if a is None:
            a = cls._cache[text] = cls(text)
        return a


def tasks(tier, seed):
    t = [(MOD, "exh", (i,)) for i in range(len(RPS))]
    n = 800 if tier == "quick" else 16000
    shards = 16 if tier == "quick" else 64
    t += [(MOD, "hyp", (n // shards, seed * 1_000_003 + i)) for i in range(shards)]
    return t


def exh(acc, i):
    acc.exhaustive_layers.add("L1-grid")
    mod = sys.modules[MOD]
    rp = RPS[i]
    for impl in IMPLS:
        for py in PYT:
            harness.process(mod, acc, "single", {"rp": rp, "impl": impl, "py": py, "abis": abis_for(py)}, "L1-grid", isolate=False)


_MINOR = st.sampled_from([6, 7, 8, 9, 10, 11, 12, 13])
_MICRO = st.sampled_from([0, 1, 2, 5, 10, 20])


@st.composite
def pyver(draw, allow_short=True):
    x = draw(st.sampled_from([3, 3, 3, 3, 2]))
    y = draw(_MINOR) if x == 3 else draw(st.sampled_from([6, 7]))
    k = draw(st.sampled_from([0, 0, 1, 1, 2]))
    if k == 0 and allow_short:
        return f"{x}.{y}"
    if k == 2 and allow_short and draw(st.booleans()):
        return f"{x}"
    return f"{x}.{y}.{draw(_MICRO)}"


@st.composite
def rp_clause(draw):
    op = draw(st.sampled_from([">=", ">=", ">", "<", "<", "<=", "==", "!=", "~=", "==*", "!=*", "!=*"]))
    if op in ("==*", "!=*"):
        v = draw(pyver())
        v = ".".join(v.split(".")[:2])
        return op[:2] + v + ".*"
    if op == "~=":
        v = draw(pyver())
        if "." not in v:
            v += ".0"
        return op + v
    return op + draw(pyver())


@st.composite
def rp_text(draw):
    sets = []
    for _ in range(draw(st.sampled_from([1, 1, 1, 2]))):
        sets.append(",".join(draw(st.lists(rp_clause(), min_size=1, max_size=3))))
    return "||".join(sets)


@st.composite
def wheel_case(draw):
    rp = draw(rp_text())
    impl = draw(st.sampled_from(IMPLS))
    pys = draw(st.lists(st.sampled_from(PYT), min_size=1, max_size=3, unique=True))
    abis = []
    for _ in range(draw(st.sampled_from([1, 1, 2, 3]))):
        abis.append(draw(st.sampled_from(abis_for(draw(st.sampled_from(pys))))))
    return {"rp": rp, "impl": impl, "pys": pys, "abis": sorted(set(abis))}


def hyp(acc, n, seed):
    mod = sys.modules[MOD]
    harness.run_hypothesis(acc, wheel_case(), lambda c: harness.process(mod, acc, "set", c, "L2-hyp", isolate=False), n, seed)


def _near_bound(rp, py):
    import re

    ver = py[2:]
    if len(ver) < 2:
        return True
    y = int(ver[1:])
    minors = [int(m) for m in re.findall(r"\b[23]\.(\d+)", rp)]
    return any(abs(y - m) <= 2 for m in minors)


def evaluate(kind, case, acc):
    rp = case["rp"]
    impl, gil = case["impl"]
    adm = Admit.of(rp)
    if adm.ambiguous:
        acc.discarded["grid/interval-ambiguous requires_python"] += 1
        return
    try:
        spec = EnvSpec.from_spec(rp, None, impl, gil)
    except InvalidSpecifier:
        if adm.empty:
            # an unsatisfiable requires_python is refused by from_spec: not a target at all
            acc.discarded["empty requires_python refused by from_spec"] += 1
            return
        raise
    admits = adm.coarse.__contains__
    xy = adm.coarse_xy

    def oracle(py, abi):
        # same decision as tagsoracle.python_abi_oracle, with exists() answered on the (X,Y) projection
        return T.python_abi_oracle(lambda v: True, impl, gil, py, abi, [(x, y, 0) for x, y in xy])

    if kind == "single":
        py = case["py"]
        for abi in case["abis"]:
            exp = oracle(py, abi)
            if exp == "skip":
                continue
            got = spec.compatibility([py], [abi], ["any"])
            acc.oracle_evaluations += 1
            g3 = None if got is None else tuple(got[:3])
            gw = spec.wheel_compatibility(f"x-1-{py}-{abi}-any.whl")  # the file-name entry point is a twin
            if gw == got:
                gw = spec.wheel_compatibility(f"x-1-7-{py}-{abi}-any.whl")  # ... with the optional build tag, too
            if gw != got:
                acc.fail(kind, "wheel_compatibility-differs-from-compatibility", {**case, "abis": [abi]}, expected=got, got=gw)
            if not adm.universal and not adm.empty and _near_bound(rp, py):
                acc.nontrivial_exhaustive += 1
            if g3 != exp:
                cls = f"{py[:2]}{'XY' if len(py) > 3 else 'X'}-{abi if abi in ('none', 'abi3') else 'native'}"
                which = "wrongly-compatible" if exp is None else "wrongly-rejected" if got is None else "score"
                acc.fail(kind, f"{cls}:{which}", {**case, "abis": [abi]}, expected=exp, got=got)
        if case["py"] in ("cp39", "py36", "py3") and impl in (None, "cpython"):
            acc.sample({"requires_python": rp, "impl": case["impl"], "py": py, "verdicts": {a: spec.compatibility([py], [a], ["any"]) for a in case["abis"][:4]}}, "L1-grid")
        return
    exps = [oracle(p, a) for p, a in itertools.product(case["pys"], case["abis"])]
    if "skip" in exps:
        acc.discarded["tag outside the stated universe"] += 1
        return
    exp = max([e for e in exps if e is not None], default=None)
    got = spec.compatibility(case["pys"], case["abis"], ["any"])
    g3 = None if got is None else tuple(got[:3])
    acc.oracle_evaluations += len(exps)
    acc.label(f"impl={impl}", "compatible" if exp else "incompatible", f"combos={len(exps)}")
    if not adm.universal and not adm.empty and (len(exps) > 1 or any(_near_bound(rp, p) for p in case["pys"])):
        acc.nontriv(case)
        acc.sample({**case, "expected": exp, "got": got}, "L2-hyp")
    if g3 != exp:
        which = "wrongly-compatible" if exp is None else "wrongly-rejected" if got is None else "score"
        acc.fail(kind, f"set:{which}", case, expected=exp, got=got)


def candidates(kind, case):
    if kind == "single":
        return
    for key in ("pys", "abis"):
        if len(case[key]) > 1:
            for i in range(len(case[key])):
                yield {**case, key: case[key][:i] + case[key][i + 1 :]}
    rp = case["rp"]
    if "||" in rp:
        for p in rp.split("||"):
            yield {**case, "rp": p}
    for part in rp.split("||"):
        cl = part.split(",")
        if len(cl) > 1:
            for i in range(len(cl)):
                yield {**case, "rp": rp.replace(part, ",".join(cl[:i] + cl[i + 1 :]), 1)}
