"""C18 - wheel file names and platform names are parsed faithfully.

Wheel names: differential against packaging.utils.parse_wheel_filename on names packaging accepts
(tag sets must coincide); wrong extension / wrong number of dash-separated parts must raise
InvalidWheelFilename.  dep-logic accepting a name packaging rejects for another reason is not a
violation (nothing claims it).  Platform names: every Platform.choices() family with any X_Y,
aliases resolve to their documented targets, Platform.parse(str(p)) == p.
"""

from __future__ import annotations

import sys

from hypothesis import strategies as st
from packaging.utils import InvalidWheelFilename as PkgInvalid
from packaging.utils import parse_wheel_filename

from dep_logic.specifiers import RangeSpecifier
from dep_logic.tags import EnvSpec, Platform
from dep_logic.tags import os as dos
from dep_logic.tags.platform import Arch
from dep_logic.tags.tags import InvalidWheelFilename, parse_wheel_tags

from .. import harness

PROP = "C18"
CASE_TIMEOUT = 5.0
MOD = __name__
META = {
    "rule": "Hypothesis wheel names from the PEP 427 grammar (names with _ . digits, versions with epoch/post/local, optional "
    "build tag, compressed tag sets of 1-3 members per field, real platform tags with underscores) plus wrong extensions and "
    "3/6/7-part names; thorough adds atheris bytes. Platform strings: every choices() entry with X_Y over multi-digit "
    "versions, aliases, str() round trip of the C09 grid (exhaustive). Non-trivial = accepted name with a build tag or a "
    "compressed tag set, or an invalid name; platform with a two-digit version component; distinct by text.",
    "assumptions": ["packaging.utils.parse_wheel_filename defines the tag sets of a valid name"],
}

_NAME = st.sampled_from(["foo", "foo_bar", "Foo.Bar", "a", "zope.interface", "foo__bar", "f00", "x_1", "A_B_C"])
_VER = st.sampled_from(["1.0", "1.0.post1", "2!1.0", "1.0a1", "1.0+local.1", "1.0.dev0", "2024.1.15", "0", "1.0rc1.post2.dev3"])
_BUILD = st.sampled_from([None, None, None, "1", "1abc", "2_b", "20240101"])
_PY = st.lists(st.sampled_from(["py3", "py2", "cp39", "cp310", "pp39", "py38", "cp313", "pt38", "PY3", "CP39", "cp39rc1", "py3_10", "cpx", "py3b", "py31rc1", "cp3a", "py27", "py312", "py4", "py39", "cp38"]), min_size=1, max_size=3, unique=True).map(".".join)
_ABI = st.lists(st.sampled_from(["none", "abi3", "cp39", "cp310t", "pypy39_pp73", "cp313t", "cp27mu", "NONE", "ABI3"]), min_size=1, max_size=3, unique=True).map(".".join)
_PLAT = st.lists(
    st.sampled_from(["any", "manylinux_2_17_x86_64", "manylinux2014_x86_64", "win_amd64", "macosx_10_9_universal2", "linux_armv7l", "musllinux_1_1_aarch64", "manylinux_2_28_ppc64le", "win32", "macosx_11_0_arm64", "ANY", "Win_AMD64"]),
    min_size=1,
    max_size=3,
    unique=True,
).map(".".join)
_EXT = st.sampled_from([".whl"] * 7 + [".zip", ".WHL", "", ".whl.zip", ".tar.gz", ".wh"])


@st.composite
def wheel_name(draw):
    parts = [draw(_NAME), draw(_VER)]
    b = draw(_BUILD)
    if b is not None:
        parts.append(b)
    parts += [draw(_PY), draw(_ABI), draw(_PLAT)]
    k = draw(st.sampled_from(range(12)))
    if k == 0:
        parts = parts[:1] + parts[-3:]  # 4 parts -> 3 dashes
    elif k == 1:
        parts = parts + ["extra"]
    elif k == 2:
        parts = ["pre", "fix"] + parts
    elif k == 3:
        parts = parts[-3:]
    return {"name": "-".join(parts) + draw(_EXT)}


def tasks(tier, seed):
    n = 6400 if tier == "quick" else 128000
    shards = 16 if tier == "quick" else 64
    t = [(MOD, "hyp", (n // shards, seed * 1_000_003 + i)) for i in range(shards)]
    t.append((MOD, "platforms", ()))
    if tier == "thorough":
        t += [(MOD, "fuzz", (seed * 101 + i, 200000)) for i in range(8)]
    return t


def hyp(acc, n, seed):
    mod = sys.modules[MOD]
    harness.run_hypothesis(acc, wheel_name(), lambda c: harness.process(mod, acc, "wheel", c, "wheel-names", isolate=False), n, seed)


def fuzz(acc, seed, runs):
    from ..fuzzing import run_atheris

    run_atheris(acc, sys.modules[MOD], "wheel", _decode_tokens, seed, runs, max_len=16, layer="atheris-tokens", seeds=[bytes([0, 0, 0, 1, 0, 7, 0, 11, 0, 14]), bytes([0, 0, 0, 1, 0, 4, 0, 8, 0, 12, 0, 15])], ascii_only=False)


_F_COMP = ["foo", "1.0", "bar", "2!1.0", "1", "1abc", "1.0+l", "py3", "cp39", "cp310", "pp39", "none", "abi3", "cp313t", "any",
         "manylinux_2_17_x86_64", "manylinux2014_x86_64", "win_amd64", "macosx_10_9_universal2", "linux_armv7l", "1.0.post1", "a", "0", "X", ""]
_F_SEP = ["-", "-", "-", "-", ".", "_", "", "--"]
_F_EXT = [".whl"] * 6 + [".zip", ""]


def _decode_tokens(data: bytes):
    """Structure-aware layer: byte 0 picks the extension, then components and separators alternate."""
    if not data:
        return {"name": ""}
    parts = []
    for i, b in enumerate(data[1:]):
        parts.append(_F_COMP[b % len(_F_COMP)] if i % 2 == 0 else _F_SEP[b % len(_F_SEP)])
    return {"name": "".join(parts) + _F_EXT[data[0] % len(_F_EXT)]}


def platform_strings():
    out = []
    vers = [(10, 9), (11, 0), (2, 17), (1, 2), (2, 5), (12, 3), (2, 28), (14, 0), (10, 15), (2, 100), (21, 10), (1, 10)]
    for c in Platform.choices():
        if "X_Y" in c:
            for x, y in vers:
                out.append(c.replace("X", str(x)).replace("Y", str(y)))
        else:
            out.append(c)
    for arch in ("armv7l", "ppc64le", "ppc64", "s390x", "riscv64", "x86", "i686", "armv6l", "loongarch64"):
        out += [f"manylinux_2_17_{arch}", f"musllinux_1_2_{arch}"]
    return out


ALIAS = {
    "linux": "manylinux_2_17_x86_64",
    "windows": "windows_amd64",
    "macos": "macos_14_0_arm64",
    "alpine": "musllinux_1_2_x86_64",
    "macos_arm64": "macos_14_0_arm64",
    "macos_x86_64": "macos_14_0_x86_64",
}


def platforms(acc):
    acc.exhaustive_layers.add("platform-names")
    mod = sys.modules[MOD]
    for s in platform_strings():
        harness.process(mod, acc, "platform", {"text": s}, "platform-names", isolate=False)
    from .c09 import grid

    for c in grid():
        if c[0] != "name":
            harness.process(mod, acc, "platform", {"text": f"{c[0]}_{c[1]}_{c[2]}_{c[3]}"}, "platform-names", isolate=False)


def evaluate(kind, case, acc):
    if kind == "platform":
        text = case["text"]
        p = Platform.parse(text)
        acc.oracle_evaluations += 1
        if any(len(seg) > 1 and seg.isdigit() for seg in text.split("_")):
            acc.nontriv(text)
        if text in ALIAS:
            target = Platform.parse(ALIAS[text])
            if p != target:
                acc.fail(kind, "platform:alias-target", case, expected=ALIAS[text], got=str(p))
        else:
            fam = text.split("_")[0]
            if fam in ("manylinux", "musllinux", "macos"):
                _, X, Y, arch = text.split("_", 3)
                cls = {"manylinux": dos.Manylinux, "musllinux": dos.Musllinux, "macos": dos.Macos}[fam]
                exp_arch = {"arm64": Arch.Aarch64, "i686": Arch.X86, "amd64": Arch.X86_64}.get(arch) or Arch(arch)
                if not (isinstance(p.os, cls) and (p.os.major, p.os.minor) == (int(X), int(Y)) and p.arch == exp_arch):
                    acc.fail(kind, f"platform:fields:{fam}", case, expected=[fam, int(X), int(Y), str(exp_arch)], got=[type(p.os).__name__, getattr(p.os, "major", None), getattr(p.os, "minor", None), str(p.arch)])
            elif fam == "windows":
                exp_arch = {"amd64": Arch.X86_64, "x86": Arch.X86, "arm64": Arch.Aarch64}[text.split("_", 1)[1]]
                if not (isinstance(p.os, dos.Windows) and p.arch == exp_arch):
                    acc.fail(kind, "platform:fields:windows", case, expected=str(exp_arch), got=str(p))
        s = str(p)
        q = Platform.parse(s)
        if q != p:
            acc.fail(kind, "platform:str-roundtrip", case, expected=repr(p), got={"str": s, "reparsed": repr(q)})
        acc.sample({"text": text, "parsed": repr(p), "str": s}, "platform-names")
        return
    name = case["name"]
    try:
        pk = parse_wheel_filename(name)
    except PkgInvalid as e:
        pk, pk_err = None, e
    except Exception as e:  # noqa: BLE001  packaging's own crash on a weird name: no reference
        acc.discarded[f"reference-raised-{type(e).__name__}"] += 1
        return
    try:
        got = parse_wheel_tags(name)
        err = None
    except InvalidWheelFilename as e:
        got, err = None, e
    acc.oracle_evaluations += 1
    stem = name[:-4] if name.endswith(".whl") else None
    dashes = None if stem is None else stem.count("-")
    if stem is None or dashes not in (4, 5):
        acc.label("wrong-extension" if stem is None else f"wrong-parts:{dashes + 1}")
        acc.nontriv(name)
        acc.sample({"name": name, "expected": "InvalidWheelFilename", "got": repr(err) if err else got}, "invalid")
        if err is None:
            acc.fail(kind, "wheel:accepts-" + ("wrong-extension" if stem is None else "wrong-part-count"), case, expected="InvalidWheelFilename", got=got)
        return
    if pk is None:
        acc.discarded["packaging rejects for another reason (nothing claimed)"] += 1
        return
    tags = pk[3]
    exp = (sorted({t.interpreter for t in tags}), sorted({t.abi for t in tags}), sorted({t.platform for t in tags}))
    acc.label("valid", "build-tag" if dashes == 5 else "no-build-tag")
    if dashes == 5 or "." in stem.rsplit("-", 3)[1] or "." in stem.rsplit("-", 3)[2] or "." in stem.rsplit("-", 3)[3]:
        acc.nontriv(name)
        acc.sample({"name": name, "tags": exp}, "valid")
    if got is None:
        acc.fail(kind, "wheel:rejects-valid", case, expected=exp, got=repr(err))
        return
    g = tuple(sorted(set(x)) for x in got)
    if g != exp:
        acc.fail(kind, "wheel:tag-sets-differ", case, expected=exp, got=g)
    # wheel_compatibility sees exactly these sets
    spec = EnvSpec(RangeSpecifier(), None, None)
    a = spec.wheel_compatibility(name)
    b = spec.compatibility(*[list(x) for x in exp])
    if a != b:
        acc.fail(kind, "wheel:wheel_compatibility-differs-from-compatibility-on-reference-tags", case, expected=b, got=a)
    # "compressed tag sets expanded": the wheel is judged like the best of its single-tag expansions, whatever the
    # order in which the compressed sets are written (a and b above go through the same code, this does not)
    for sp in _specs():
        whole = sp.wheel_compatibility(name)
        singles = [sp.compatibility([p], [ab], [pl]) for p in exp[0] for ab in exp[1] for pl in exp[2]]
        singles = [x for x in singles if x is not None]
        best = None
        if singles:
            best = (*max(x[:3] for x in singles), max(x[3] for x in singles))
        acc.oracle_evaluations += 1
        if len(exp[0]) * len(exp[1]) * len(exp[2]) > 1 and best is not None:
            acc.label("compressed-set-with-compatible-expansion")
        if whole != best:
            acc.fail(kind, "wheel:compressed-set-not-judged-like-its-expansions", case, expected=best, got={"wheel_compatibility": whole, "spec": str(sp.requires_python), "platform": str(sp.platform)})
            break


_SPECS = []


def _specs():
    if not _SPECS:
        _SPECS.extend([EnvSpec(RangeSpecifier(), None, None), EnvSpec.from_spec(">=2.7", "manylinux_2_28_x86_64", "cpython"), EnvSpec.from_spec(">=3.9", "macos_12_0_arm64")])
    return _SPECS


def candidates(kind, case):
    key = "name" if kind == "wheel" else "text"
    t = case[key]
    for i in range(len(t)):
        yield {key: t[:i] + t[i + 1 :]}
