"""C12 - only() / exclude() / without_extras() eliminate variables soundly.

  names(m.only(N)) subset N at every depth; m.evaluate(e) => m.only(N).evaluate(e) on every row;
  N superset names(m) => same truth table;
  names(m.exclude(x)) excludes x; x not in names(m) => same truth table; without_extras = exclude("extra").
Nothing more is asserted about exclude() of a mentioned variable (the statement claims nothing).
"""

from __future__ import annotations

import sys

from .. import harness
from .. import markerops as O
from .. import markers as M

PROP = "C12"
CASE_TIMEOUT = 8.0
MOD = __name__
META = {
    "rule": "Hypothesis operand expressions (as C02) x variable subsets of size 1-3 drawn from the mentioned variables plus an "
    "unmentioned one, applied to a, b, a&b, a|b; plus a fixed table of nested shapes x every subset of their variables. "
    "Non-trivial = the marker mentions >= 2 variables and the kept/removed variable is mentioned; distinct by (marker text, "
    "names).",
    "assumptions": ["truth tables on the C02 environment grid (extra as sets); M4 rows excluded"],
}

FIXED_TEXTS = [
    'python_version >= "3.6" and (extra == "foo" or extra == "bar") or implementation_name == "pypy"',
    'python_version >= "3.6" and extra == "foo" or implementation_name == "pypy" and extra == "bar"',
    '(sys_platform == "linux" or sys_platform == "win32") and (os_name != "nt" and os_name != "java") and python_full_version < "3.9.2"',
    'os_name == "nt" and (python_version < "3.8" or extra == "foo") and (sys_platform != "win32" or extra != "bar")',
    '(python_version in "3.8, 3.9" or platform_release >= "5.4") and ("linux" in sys_platform or extra == "Foo_Bar")',
]


def tasks(tier, seed):
    global CASE_TIMEOUT
    CASE_TIMEOUT = 2.5 if tier == "quick" else 6.0
    n = 1600 if tier == "quick" else 48000
    shards = 48 if tier == "quick" else 192
    t = [(MOD, "hyp", (n // shards, seed * 1_000_003 + i, tier)) for i in range(shards)]
    t.append((MOD, "fixed", ()))
    t += [(MOD, "guarded", (i, 16, tier)) for i in range(16)]
    t += [(MOD, "tables", ("factored-pairs", tier, sh, 4)) for sh in range(4)]
    t += [(MOD, "tables", ("factored-triples", tier, sh, 8)) for sh in range(8)]
    return t


def tables(acc, name, tier, shard, nshards):
    from . import c02

    layer = "L1-" + name
    acc.exhaustive_layers.add(layer)
    mod = sys.modules[MOD]
    for i, case in enumerate(c02.table_cases(name, tier)):
        if i % nshards == shard:
            harness.process(mod, acc, "family", {"names": ["os_name"], **case}, layer)


def guarded(acc, shard, nshards, tier):
    """L1: (x1 and g1) or (x2 and g2) or x3 with x1..x3 atoms on ONE variable (resp. on the two Python-version
    variables) and g1, g2 guards on another one: the atoms never meet while the marker is built; only(),
    exclude(guard variable) and without_extras() drop the guards and unite / merge them for the first time."""
    import itertools

    from . import c02

    layer = "L1-guarded-dnf"
    acc.exhaustive_layers.add(layer)
    mod = sys.modules[MOD]
    g = [{"var": "os_name", "op": "==", "val": v, "rev": False, "style": 0} for v in ("nt", "posix")]
    S = c02.str_atoms(tier)
    A = [a for a in c02.py_atoms("quick") if not a["rev"]][:: 8 if tier == "quick" else 2]
    k = 0
    for pool, names in ((S, ["sys_platform"]), (A, ["python_version", "python_full_version"])):
        for x1, x2, x3 in itertools.product(pool, repeat=3):
            k += 1
            if k % nshards != shard or x1 == x2:
                continue
            tree = ["or", [["and", [["atom", x1], ["atom", g[0]]]], ["and", [["atom", x2], ["atom", g[1]]]], ["atom", x3]]]
            harness.process(mod, acc, "family", {"a": ["parse", tree], "b": ["any"], "names": names}, layer)
            if x3 is pool[0]:
                tree2 = ["and", [["or", [["atom", x1], ["atom", g[0]]]], ["or", [["atom", x2], ["atom", g[1]]]]]]
                harness.process(mod, acc, "family", {"a": ["parse", tree2], "b": ["any"], "names": names}, layer)


def hyp(acc, n, seed, tier):
    mod = sys.modules[MOD]
    harness.run_hypothesis(acc, O.family_case(3 if tier == "quick" else 4), lambda c: harness.process(mod, acc, "family", c, "L2-hyp"), n, seed)


def fixed(acc):
    import itertools

    from packaging.markers import Marker

    mod = sys.modules[MOD]
    for text in FIXED_TEXTS:
        names = sorted({str(x[0]) if hasattr(x[0], "value") and type(x[0]).__name__ == "Variable" else str(x[2]) for x in _flat(Marker(text)._markers)})
        for k in (1, 2, len(names)):
            for sub in itertools.combinations(names, k):
                harness.process(mod, acc, "text", {"text": text, "names": list(sub)}, "fixed-shapes")


def _flat(ms):
    for x in ms:
        if isinstance(x, tuple):
            yield x
        elif isinstance(x, list):
            yield from _flat(x)


def check(acc, kind, case, label, m, names, rows, atoms):
    from dep_logic.markers import parse_marker  # noqa: F401

    mentioned = O.names_in(m)
    tm = O.table(m, rows)
    nontrivial = len(mentioned) >= 2
    # only
    r = m.only(*names)
    leaked = O.names_in(r) - set(names)
    acc.oracle_evaluations += len(rows)
    if leaked:
        acc.fail(kind, f"only:leaks-variable|{O.shape(m)}", case, expected=f"only {names}", got={"label": label, "marker": str(m), "result": str(r), "leaked": sorted(leaked)})
    tr = O.table(r, rows)
    bad = [i for i in range(len(rows)) if tm[i] and not tr[i]]
    if bad:
        acc.fail(kind, f"only:not-implied-by-marker|{O.shape(m)}", case, expected={"env": M.env_json(rows[bad[0]]), "m": True, "only": True}, got={"label": label, "marker": str(m), "result": str(r), "only": False})
    if mentioned <= set(names) and tr != tm:
        i = next(k for k in range(len(rows)) if tr[k] != tm[k])
        acc.fail(kind, f"only:changes-meaning-though-all-names-kept|{O.shape(m)}", case, expected={"env": M.env_json(rows[i]), "value": tm[i]}, got={"label": label, "marker": str(m), "result": str(r), "value": tr[i]})
    if nontrivial and mentioned & set(names):
        acc.nontriv(["only", str(m), names])
    # exclude / without_extras
    for x, res, opname in [(names[0], m.exclude(names[0]), "exclude"), ("extra", m.without_extras(), "without_extras")]:
        if x in O.names_in(res):
            acc.fail(kind, f"{opname}:variable-still-mentioned|{O.shape(m)}", case, expected=f"no {x}", got={"label": label, "marker": str(m), "result": str(res)})
        if x not in mentioned:
            te = O.table(res, rows)
            if te != tm:
                i = next(k for k in range(len(rows)) if te[k] != tm[k])
                acc.fail(kind, f"{opname}:changes-meaning-of-unrelated-marker|{O.shape(m)}", case, expected={"env": M.env_json(rows[i]), "value": tm[i]}, got={"label": label, "marker": str(m), "result": str(res), "value": te[i]})
        elif nontrivial:
            acc.nontriv([opname, str(m), x])
    if opname == "without_extras":
        we, ex = m.without_extras(), m.exclude("extra")
        if O.table(we, rows) != O.table(ex, rows) or str(we) != str(ex):
            acc.fail(kind, f"without_extras-differs-from-exclude(extra)|{O.shape(m)}", case, expected=str(ex), got=str(we))
    if nontrivial:
        acc.sample({"marker": str(m), "names": names, "only": str(r), f"exclude({names[0]})": str(m.exclude(names[0])), "without_extras": str(m.without_extras())}, "elimination")


def is_known(kind, case):
    # S4a through markers: V >= lo merged with V < "X.postN" renders as ~=lo (see known_findings.json)
    return "S4a-post-release-upper-bound" if O.s4a_case(case) else None


def evaluate(kind, case, acc):
    from dep_logic.markers import parse_marker

    names = case["names"]
    if kind == "text":
        m = parse_marker(case["text"])
        from packaging.markers import Marker

        atoms = []
        for x in _flat(Marker(case["text"])._markers):
            lhs_var = type(x[0]).__name__ == "Variable"
            atoms.append({"var": str(x[0].value if lhs_var else x[2].value), "op": str(x[1].value), "val": str(x[2].value if lhs_var else x[0].value), "rev": not lhs_var})
        rows = M.environments(atoms, limit=300, extra_as_set=True, salt=len(names))
        if harness.KNOWN_ENABLED:
            rows = [r for r in rows if not M.m4_row(atoms, r)]
        check(acc, kind, case, "parse", m, names, rows, atoms)
        return
    atoms = O.expr_atoms(case["a"]) + O.expr_atoms(case["b"])
    rows = M.environments(atoms, limit=200, extra_as_set=True, salt=len(atoms))
    if harness.KNOWN_ENABLED:
        kept = [r for r in rows if not M.m4_row(atoms, r)]
        if len(kept) != len(rows):
            acc.excluded_known["M4-rows"] += len(rows) - len(kept)
        rows = kept
    A, B = O.dep_eval(case["a"]), O.dep_eval(case["b"])
    for label, m in (("a", A), ("b", B), ("a&b", A & B), ("a|b", A | B)):
        acc.label(f"{label}:{O.shape(m)}")
        check(acc, kind, case, label, m, names, rows, atoms)


def candidates(kind, case):
    if kind == "text":
        if len(case["names"]) > 1:
            for i in range(len(case["names"])):
                yield {**case, "names": case["names"][:i] + case["names"][i + 1 :]}
        return
    yield from O.case_shrinks(case)
