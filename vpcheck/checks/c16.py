"""C16 - widening a target never loses wheels; EnvSpec.compare is consistent with tag inclusion.

Relations over pairs of configurations:
  R_A subset R_B (decided with packaging on the dense interpreter grid) and other fields equal
      => every wheel compatible with A is compatible with B;
  newer release of the same OS and architecture => tags(A) subset tags(B);
  compare: reflexive (LOWER_OR_EQUAL), INCOMPATIBLE symmetric, never HIGHER both ways,
      LOWER_OR_EQUAL / HIGHER with two platforms => tag sets nested accordingly.
"""

from __future__ import annotations

import itertools
import sys

from hypothesis import strategies as st

from dep_logic.specifiers import InvalidSpecifier
from dep_logic.tags import EnvSpec, Platform
from dep_logic.tags.tags import EnvCompatibility as EC

from .. import harness
from . import c08

PROP = "C16"
CASE_TIMEOUT = 60.0
MOD = __name__
META = {
    "rule": "L1 grid: 30 requires_python shapes x 32 platforms (the documented families, several releases each, plus one hypothetical next major per Linux family) x 4 "
    "implementation settings = 3840 specs; all pairs inside a (platform, implementation) group for wheel monotonicity over "
    "a 176-wheel universe, all ordered pairs of the whole grid for the compare() relations, all same-family platform pairs "
    "for tag nesting (exhaustive over the grid); L1-epoch: 20 epoch-bearing requires_python texts x themselves, subset decided by packaging on an epoch 0/1/2 probe grid; L2 Hypothesis requires_python pairs. Non-trivial = pair with different "
    "requires_python where one admits a subset of the other, or two different platforms of the same OS family and "
    "architecture; distinct by the pair.",
    "assumptions": [
        "R_A subset R_B is decided by packaging.SpecifierSet on final X.Y.Z plus sub-micro and pre-release probe points; ambiguous specs skipped",
        "platforms limited to Platform.choices() families (manylinux, musllinux, macos, windows)",
    ],
}

RPS = ["", ">=3.8", ">=3.9,<3.12", "<3.10", "==3.9.*", "!=3.10.*", ">=3.8,!=3.10.*,<3.13", ">=3.9.2", "<3.9.2", "~=3.9", "==3.10.5",
       "<3||>=3.6", ">=3.10||<3.8", "<=3.9", ">3.9", ">=3.20", "<2.7", ">=3.6", ">=2.7",
       # unions one of whose branches ends (inclusively) exactly on a wheel's X.Y: the only shared interpreter is a point
       "<=3.9||>=3.12", "<3.8||==3.10", "<=3.10||>=3.13", "!=3.6.*,!=3.8.*,<=3.10", "==3.10",
       # the same set written upper bound first / lower bound first (clauses are folded in written order)
       "<=3.10,>=3.8", ">=3.8,<=3.10",
       # a point followed / preceded by the half-open series that ends on it
       "==3.10||==3.9.*", "==3.9.*||==3.10",
       # union | union where an early range of the right side bridges every gap of the left one
       ">=3.8,!=3.9.*,<3.11||>=3.9,!=3.11.*", ">=3.12"]
PLATS = [None, "linux", "windows", "macos", "alpine", "windows_x86", "windows_arm64", "macos_x86_64", "macos_10_9_x86_64",
         "macos_10_15_x86_64", "macos_10_16_x86_64", "macos_11_0_x86_64", "macos_11_3_x86_64", "macos_12_3_x86_64", "macos_12_0_arm64", "macos_13_0_arm64", "macos_11_0_arm64",
         "manylinux_2_17_x86_64", "manylinux_2_28_x86_64", "manylinux_2_5_x86_64", "manylinux_2_12_x86_64", "manylinux_2_17_aarch64",
         "manylinux_2_31_aarch64", "manylinux_2_35_riscv64", "musllinux_1_1_x86_64", "musllinux_1_2_x86_64", "musllinux_1_2_aarch64", "musllinux_1_1_aarch64",
         "manylinux_2_17_armv7l", "manylinux_2_17_ppc64le"]
# hypothetical next majors of the two Linux families: Platform.parse accepts them and compare() orders them, but the
# tag generators never walk across a major (known finding T7, see is_known below)
PLATS += ["manylinux_3_0_x86_64", "musllinux_2_0_x86_64"]
IMPLS = [[None, False], ["cpython", False], ["cpython", True], ["pypy", False]]
PY = [("cp39", "cp39"), ("cp39", "abi3"), ("cp310", "cp310"), ("cp313", "cp313t"), ("py3", "none"), ("py38", "none"),
      ("pp39", "pypy39_pp73"), ("cp38", "none"), ("py2", "none"), ("cp27", "cp27mu"), ("cp36", "abi3")]
PT = ["any", "win_amd64", "win32", "manylinux2014_x86_64", "manylinux_2_28_x86_64", "manylinux1_x86_64", "musllinux_1_1_x86_64",
      "musllinux_1_2_x86_64", "macosx_10_9_x86_64", "macosx_11_0_arm64", "macosx_10_9_universal2", "macosx_12_0_x86_64",
      "macosx_13_0_arm64", "linux_x86_64", "manylinux2014_aarch64", "manylinux_2_31_aarch64"]
WHEELS = [(a, b, c) for (a, b) in PY for c in PT]


# requires_python with an explicit epoch (seeded change C16_h: `==1!3.8.*` lost the epoch of its lower bound).  All
# bounds are finals X.Y / X.Y.0, so every cell between two consecutive bounds holds one of the probe points below and
# "A admits a subset of B" is decided exactly by packaging on the probes.
EPOCH_RPS = ["==1!3.8.*", ">=1!3.8.0,<1!3.9.0", "~=1!3.8.0", ">=1!3.8", ">=1!0", "!=1!3.8.*", "==1!3.*", "<1!3.9", ">=3.8", ">=3.9,<3.10", "<3.12", "",
             ">=1!3.8,<1!3.10", "==1!3.9.*", ">=3.8,<1!3.9", "!=1!3.9.*,>=1!3.8", "<1!0", ">=2!0", "==3.8.*", "!=3.8.*"]
_EPOCH_PROBES = [f"{e}{x}.{y}.{z}{sub}" for e in ("", "1!", "2!") for x in (0, 2, 3, 4) for y in range(0, 16) for z in (0, 1) for sub in ("", ".1")]
_epoch_adm: dict = {}


def epoch_admit(text):
    a = _epoch_adm.get(text)
    if a is None:
        from packaging.specifiers import SpecifierSet

        sp = SpecifierSet(text)
        a = _epoch_adm[text] = frozenset(v for v in _EPOCH_PROBES if sp.contains(v))
    return a


def epoch(acc, g):
    acc.exhaustive_layers.add("L1-epoch")
    mod = sys.modules[MOD]
    pi, ii = g
    for a, b in itertools.product(EPOCH_RPS, repeat=2):
        harness.process(mod, acc, "epoch", {"a": a, "b": b, "plat": PLATS[pi], "impl": IMPLS[ii]}, "L1-epoch", isolate=False)


_t7_os: dict = {}


def _linux_major(name):
    if name not in _t7_os:
        o = Platform.parse(name).os  # aliases ("linux", "alpine") resolve to a versioned platform
        fam = type(o).__name__
        _t7_os[name] = (fam, o.major) if fam in ("Manylinux", "Musllinux") else None
    return _t7_os[name]


def t7_pair(pa, pb) -> bool:
    """Known finding T7: two manylinux (or two musllinux) platforms with different major numbers."""
    if not pa or not pb:
        return False
    a, b = _linux_major(pa), _linux_major(pb)
    return a is not None and b is not None and a[0] == b[0] and a[1] != b[1]


def is_known(kind, case):
    if kind == "nest":
        hit = t7_pair(case["older"], case["newer"])
    elif kind == "cmp":
        hit = t7_pair(case["a"][1], case["b"][1])
    else:
        hit = "plat_b" in case and t7_pair(case["plat"], case["plat_b"])
    return "T7-linux-major-bump" if hit else None


def tasks(tier, seed):
    groups = [(pi, ii) for pi in range(len(PLATS)) for ii in range(len(IMPLS))]
    t = [(MOD, "mono", (g,)) for g in groups]
    eplats = [PLATS.index(p) for p in ((None, "manylinux_2_17_x86_64") if tier == "quick" else (None, "manylinux_2_17_x86_64", "macos_12_0_arm64", "windows"))]
    t += [(MOD, "epoch", ((pi, ii),)) for pi in eplats for ii in range(len(IMPLS))]
    t += [(MOD, "cmp", (i, 32)) for i in range(32)]
    t.append((MOD, "nest", ()))
    n = 480 if tier == "quick" else 9600
    shards = 16 if tier == "quick" else 48
    t += [(MOD, "hyp", (n // shards, seed * 1_000_003 + i)) for i in range(shards)]
    return t


def mono(acc, g):
    acc.exhaustive_layers.add("L1-monotone")
    mod = sys.modules[MOD]
    pi, ii = g
    for a, b in itertools.product(RPS, repeat=2):
        harness.process(mod, acc, "mono", {"a": a, "b": b, "plat": PLATS[pi], "impl": IMPLS[ii], "wheels": None}, "L1-monotone", isolate=False)


def all_specs():
    return [(rp, pl, im) for rp in RPS for pl in PLATS for im in IMPLS]


def cmp(acc, shard, nshards):
    acc.exhaustive_layers.add("L1-compare")
    specs = all_specs()
    objs = [EnvSpec.from_spec(rp, pl, im[0], im[1]) for rp, pl, im in specs]
    tagsets = [None if o.platform is None else frozenset(o.platform.compatible_tags) for o in objs]
    for i in range(shard, len(specs), nshards):
        A = objs[i]
        for j in range(len(specs)):
            B = objs[j]
            if harness.KNOWN_ENABLED and t7_pair(specs[i][1], specs[j][1]):
                acc.excluded_known["T7-linux-major-bump"] += 1
                continue
            acc.evaluations += 1
            acc.layers["L1-compare"] += 1
            bad = compare_laws(A, B, tagsets[i], tagsets[j], i == j)
            if specs[i][1] != specs[j][1] and specs[i][1] and specs[j][1] and specs[i][1].split("_")[0] == specs[j][1].split("_")[0]:
                acc.nontrivial_exhaustive += 1
            for b in bad:
                acc.fail("cmp", b[0], {"a": list(specs[i]), "b": list(specs[j])}, expected=b[1], got=b[2])
    acc.oracle_evaluations += acc.layers["L1-compare"] * 4
    acc.sample({"a": str(objs[shard]), "b": str(objs[-1 - shard]), "a.compare(b)": objs[shard].compare(objs[-1 - shard]).name}, "L1-compare")


def compare_laws(A, B, ta, tb, same):
    out = []
    ab, ba = A.compare(B), B.compare(A)
    if same and ab != EC.LOWER_OR_EQUAL:
        out.append(("compare:not-reflexive", "LOWER_OR_EQUAL", ab.name))
    if A == B and ab != EC.LOWER_OR_EQUAL:
        out.append(("compare:equal-specs-not-LOWER_OR_EQUAL", "LOWER_OR_EQUAL", ab.name))
    if (ab == EC.INCOMPATIBLE) != (ba == EC.INCOMPATIBLE):
        out.append(("compare:incompatible-not-symmetric", "both or neither INCOMPATIBLE", [ab.name, ba.name]))
    if ab == EC.HIGHER and ba == EC.HIGHER:
        out.append(("compare:higher-both-ways", "not both HIGHER", [ab.name, ba.name]))
    if ta is not None and tb is not None:
        if ab == EC.LOWER_OR_EQUAL and not ta <= tb:
            out.append(("compare:LOWER_OR_EQUAL-but-tags-not-subset", "tags(A) <= tags(B)", sorted(ta - tb)[:3]))
        if ab == EC.HIGHER and not tb <= ta:
            out.append(("compare:HIGHER-but-tags-not-superset", "tags(B) <= tags(A)", sorted(tb - ta)[:3]))
    return out


def nest(acc):
    """newer release of the same OS and architecture => tags(A) subset tags(B)."""
    acc.exhaustive_layers.add("L1-nesting")
    mod = sys.modules[MOD]
    fams = []
    for arch in ("x86_64", "aarch64", "armv7l", "ppc64le", "s390x", "riscv64"):
        fams.append([f"manylinux_2_{m}_{arch}" for m in range(5, 45)])
        fams.append([f"musllinux_1_{m}_{arch}" for m in range(1, 6)])
    # across a major bump of the Linux families (known finding T7)
    fams.append(["manylinux_2_17_x86_64", "manylinux_2_40_x86_64", "manylinux_3_0_x86_64", "manylinux_3_20_x86_64"])
    fams.append(["musllinux_1_1_x86_64", "musllinux_1_2_x86_64", "musllinux_2_0_x86_64", "musllinux_2_1_x86_64"])
    fams.append([f"macos_10_{m}_x86_64" for m in range(4, 17)] + [f"macos_{M}_{m}_x86_64" for M in range(11, 20) for m in (0, 2)])
    fams.append([f"macos_{M}_{m}_arm64" for M in range(11, 20) for m in (0, 2)])
    for fam in fams:
        for i in range(len(fam)):
            for j in range(i, len(fam)):
                harness.process(mod, acc, "nest", {"older": fam[i], "newer": fam[j]}, "L1-nesting", isolate=False)


def hyp(acc, n, seed):
    mod = sys.modules[MOD]
    strat = st.fixed_dictionaries(
        {
            "a": c08.rp_text(),
            "b": c08.rp_text(),
            "plat": st.sampled_from(PLATS),
            "impl": st.sampled_from(IMPLS),
            "wheels": st.just(None),
            "plat_b": st.sampled_from(PLATS),
            "impl_b": st.sampled_from(IMPLS),
        }
    )
    harness.run_hypothesis(acc, strat, lambda c: harness.process(mod, acc, "mono", c, "L2-hyp", isolate=False), n, seed)


_compat_cache: dict = {}


def compat_set(rp, plat, impl, spec):
    key = (rp, plat, tuple(impl))
    s = _compat_cache.get(key)
    if s is None:
        s = _compat_cache[key] = frozenset(w for w in WHEELS if spec.compatibility([w[0]], [w[1]], [w[2]]) is not None)
    return s


def evaluate(kind, case, acc):
    if kind == "nest":
        a, b = Platform.parse(case["older"]), Platform.parse(case["newer"])
        ta, tb = set(a.compatible_tags), set(b.compatible_tags)
        acc.oracle_evaluations += 1
        if case["older"] != case["newer"]:
            acc.nontriv(case)
        if not ta <= tb:
            acc.fail(kind, "nesting:older-tags-not-subset-of-newer:" + case["older"].split("_")[0], case, expected="subset", got=sorted(ta - tb)[:4])
        return
    if kind == "cmp":
        (ra, pa, ia), (rb, pb, ib) = case["a"], case["b"]
        A, B = EnvSpec.from_spec(ra, pa, ia[0], ia[1]), EnvSpec.from_spec(rb, pb, ib[0], ib[1])
        ta = None if A.platform is None else frozenset(A.platform.compatible_tags)
        tb = None if B.platform is None else frozenset(B.platform.compatible_tags)
        for b in compare_laws(A, B, ta, tb, case["a"] == case["b"]):
            acc.fail(kind, b[0], case, expected=b[1], got=b[2])
        return
    if kind == "epoch":
        ra, rb, plat, impl = case["a"], case["b"], case["plat"], case["impl"]
        pa, pb = epoch_admit(ra), epoch_admit(rb)
        acc.oracle_evaluations += 1
        A = EnvSpec.from_spec(ra, plat, impl[0], impl[1])
        B = EnvSpec.from_spec(rb, plat, impl[0], impl[1])
        for b in compare_laws(A, B, None, None, ra == rb):
            acc.fail(kind, b[0] + ":epoch", case, expected=b[1], got=b[2])
        acc.label("epoch-subset" if pa <= pb else "epoch-not-subset")
        if not pa <= pb:
            return
        ca, cb = compat_set(ra, plat, impl, A), compat_set(rb, plat, impl, B)
        if ra != rb and pa:
            acc.nontriv([ra, rb, plat, impl])
            acc.sample({"A": str(A), "B": str(B), "wheels_A": len(ca), "wheels_B": len(cb)}, "epoch")
        if not ca <= cb:
            lost = sorted(ca - cb)[0]
            acc.fail(kind, f"monotone:wheel-lost-by-widening:epoch:{lost[0][:2]}", case, expected="compatible(A) <= compatible(B)", got={"lost": ["-".join(w) for w in sorted(ca - cb)[:4]]})
        return
    ra, rb, plat, impl = case["a"], case["b"], case["plat"], case["impl"]
    A_adm, B_adm = c08.Admit.of(ra), c08.Admit.of(rb)
    try:
        A = EnvSpec.from_spec(ra, plat, impl[0], impl[1])
        B = EnvSpec.from_spec(rb, plat, impl[0], impl[1])
    except InvalidSpecifier:
        if A_adm.empty or B_adm.empty:
            acc.discarded["empty requires_python refused by from_spec"] += 1
            return
        raise
    if "plat_b" in case:
        B2 = EnvSpec.from_spec(rb, case["plat_b"], case["impl_b"][0], case["impl_b"][1])
        ta = None if A.platform is None else frozenset(A.platform.compatible_tags)
        tb = None if B2.platform is None else frozenset(B2.platform.compatible_tags)
        for b in compare_laws(A, B2, ta, tb, False):
            acc.fail(kind, b[0], case, expected=b[1], got=b[2])
    for b in compare_laws(A, A, None, None, True):
        acc.fail(kind, b[0], case, expected=b[1], got=b[2])
    if A_adm.ambiguous or B_adm.ambiguous:
        acc.discarded["grid/interval-ambiguous requires_python"] += 1
        return
    subset = A_adm.probes <= B_adm.probes
    acc.oracle_evaluations += 1
    acc.label("subset" if subset else "not-subset")
    if not subset:
        return
    ca, cb = compat_set(ra, plat, impl, A), compat_set(rb, plat, impl, B)
    if ra != rb and not A_adm.empty:
        acc.nontriv([ra, rb, plat, impl])
        acc.sample({"A": str(A), "B": str(B), "wheels_A": len(ca), "wheels_B": len(cb)}, "monotone")
    if not ca <= cb:
        lost = sorted(ca - cb)[0]
        acc.fail(kind, f"monotone:wheel-lost-by-widening:{lost[0][:2]}-{lost[1] if lost[1] in ('none', 'abi3') else 'native'}", case, expected="compatible(A) <= compatible(B)", got={"lost": ["-".join(w) for w in sorted(ca - cb)[:4]]})


def candidates(kind, case):
    if kind != "mono":
        return
    for key in ("a", "b"):
        rp = case[key]
        if "||" in rp:
            for p in rp.split("||"):
                yield {**case, key: p}
        for part in rp.split("||"):
            cl = part.split(",")
            if len(cl) > 1:
                for i in range(len(cl)):
                    yield {**case, key: rp.replace(part, ",".join(cl[:i] + cl[i + 1 :]), 1)}
    if case.get("plat"):
        yield {**case, "plat": None}
    if "plat_b" in case:
        c = dict(case)
        del c["plat_b"], c["impl_b"]
        yield c
