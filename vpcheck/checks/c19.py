"""C19 - string-atom specifier algebra (GenericSpecifier) is exact wherever it is defined.

Finite domain, enumerated completely: all ordered pairs of (op, literal), op in {==, !=, in, not in},
literals from a pool closed under equal / substring / superstring / disjoint / empty, all candidate
strings.  a&b / a|b either raise NotImplementedError or return r with  s in r <=> both / either;
s in ~a <=> not (s in a).  Membership of operands is computed by a 4-line reference.
Hypothesis adds random short strings over {a, b, c, ' '}.
"""

from __future__ import annotations

import itertools
import sys

from hypothesis import strategies as st

from dep_logic.specifiers import BaseSpecifier
from dep_logic.specifiers.generic import GenericSpecifier as G

from .. import harness

PROP = "C19"
CASE_TIMEOUT = 5.0
MOD = __name__
OPS = ["==", "!=", "in", "not in"]
POOL = ["", "a", "ab", "abc", "b", "bc", "linux", "linux2", "win32", "a b", "x y", "win", "darwin cygwin linux"]
# ... and under letter case (comparison and containment are case-sensitive) and list-like punctuation
POOL += ["A", "Linux", "AMD64 amd64", "x86,x86_64"]
CAND = POOL + ["c", "lin", "nux2", " ", "abcd", "zz", "y", "x", "cygwin", "darwin", "win3", "32", "amd64", "AMD64", "x86", "x86_64", "LINUX", "aB", ","]
META = {
    "rule": "All ordered pairs of (operator, literal) specifiers over a 17-literal pool closed under the relations the "
    "case table inspects, both & and |, plus ~ of every specifier, each evaluated on 25 candidate strings "
    "(exhaustive); Hypothesis adds random literals over {a,b,c,' '}. Non-trivial = the table returned a result "
    "(did not raise NotImplementedError) and the two literals are related (equal / substring / superstring); "
    "distinct by (op1, lit1, op2, lit2, connective).",
    "assumptions": ["reference membership: == / != / Python `in` / `not in` on the candidate string"],
    "exhaustive": True,
}


def mem(op, val, s):
    return {"==": s == val, "!=": s != val, "in": s in val, "not in": s not in val}[op]


def tasks(tier, seed):
    t = [(MOD, "exh", (i, 8)) for i in range(8)]
    n = 4000 if tier == "quick" else 60000
    shards = 8 if tier == "quick" else 32
    t += [(MOD, "hyp", (n // shards, seed * 1_000_003 + i)) for i in range(shards)]
    return t


def exh(acc, shard, nshards):
    acc.exhaustive_layers.add("L1-pairs")
    mod = sys.modules[MOD]
    specs = list(itertools.product(OPS, POOL))
    for i, ((o1, v1), (o2, v2)) in enumerate(itertools.product(specs, repeat=2)):
        if i % nshards != shard:
            continue
        harness.process(mod, acc, "pair", {"a": [o1, v1], "b": [o2, v2], "cands": None}, "L1-pairs", isolate=False)


_lit = st.text(alphabet="abc ", max_size=4)


def hyp(acc, n, seed):
    mod = sys.modules[MOD]
    strat = st.fixed_dictionaries(
        {
            "a": st.tuples(st.sampled_from(OPS), _lit).map(list),
            "b": st.tuples(st.sampled_from(OPS), _lit).map(list),
            "cands": st.lists(_lit, min_size=4, max_size=10),
        }
    )
    harness.run_hypothesis(acc, strat, lambda c: harness.process(mod, acc, "pair", c, "L2-random-literals", isolate=False), n, seed)


def evaluate(kind, case, acc):
    (o1, v1), (o2, v2) = case["a"], case["b"]
    cands = case.get("cands") or CAND
    cands = list(dict.fromkeys(list(cands) + [v1, v2]))
    a, b = G(o1, v1), G(o2, v2)
    related = v1 == v2 or v1 in v2 or v2 in v1
    for name, f, comb in (("and", lambda: a & b, lambda x, y: x and y), ("or", lambda: a | b, lambda x, y: x or y)):
        try:
            r = f()
        except NotImplementedError:
            acc.label(f"{name}:not-implemented")
            continue
        if not isinstance(r, BaseSpecifier):
            acc.fail(kind, f"{name}:returns-{type(r).__name__}", case, expected="BaseSpecifier or NotImplementedError", got=repr(r))
            continue
        acc.label(f"{name}:defined:{type(r).__name__}")
        if related:
            acc.nontriv([name, o1, v1, o2, v2])
        for s in cands:
            exp = comb(mem(o1, v1, s), mem(o2, v2, s))
            got = s in r
            acc.oracle_evaluations += 1
            if got is not exp:
                rel = "equal" if v1 == v2 else "substring" if (v1 in v2 or v2 in v1) else "unrelated"
                acc.fail(kind, f"{name}:{'/'.join(sorted([o1, o2]))}:{type(r).__name__}:{rel}", {**case, "s": s}, expected=exp, got={"s in r": got, "r": f"{type(r).__name__}({r})", "a": str(a), "b": str(b)})
                break
    for op, val, x in ((o1, v1, a),):
        inv = ~x
        for s in cands:
            acc.oracle_evaluations += 1
            if (s in inv) is not (not mem(op, val, s)):
                acc.fail(kind, f"invert:{op}", {**case, "s": s}, expected=not mem(op, val, s), got={"s in ~a": s in inv, "~a": str(inv)})
                break
    if related and o1 != o2:
        acc.sample({"a": str(a), "b": str(b), "a&b": _try(lambda: a & b), "a|b": _try(lambda: a | b)}, "pairs")


def _try(f):
    try:
        r = f()
        return f"{type(r).__name__}({r})"
    except NotImplementedError:
        return "NotImplementedError"


def candidates(kind, case):
    if case.get("cands"):
        for i in range(len(case["cands"])):
            yield {**case, "cands": case["cands"][:i] + case["cands"][i + 1 :]}
    for k in ("a", "b"):
        op, v = case[k]
        for i in range(len(v)):
            yield {**case, k: [op, v[:i] + v[i + 1 :]]}
