"""C09 - platform tag sets and preference order follow PEP 600 / PEP 656 / macOS rules.

Whole configuration grid of the quantifier, enumerated completely.  Reference = rule oracle written
from the property statement, itself cross-checked against packaging.tags / _manylinux / _musllinux
(probes stubbed); a disagreement between the two references is a harness error (exit 2).
"""

from __future__ import annotations

import sys

from dep_logic.specifiers import RangeSpecifier
from dep_logic.tags import EnvSpec, Platform

from .. import harness
from .. import tagsoracle as T

PROP = "C09"
CASE_TIMEOUT = 10.0
MOD = __name__
META = {
    "rule": "Every platform of the grid: manylinux 2.5..2.50 x 7 archs, musllinux 1.1..1.5 x 7 archs, macOS 10.4..10.16 and "
    "11..30 (minor 0 and 3) x {x86_64, arm64; arm64 only from 11}, windows x {x86, amd64, arm64} and the aliases "
    "(exhaustive). compatible_tags compared as a list (manylinux, macOS) or a set (musllinux, windows) with the rule "
    "oracle; the platform score of EnvSpec.compatibility must fall strictly along the list with `any` last and "
    "unknown tags rejected. Non-trivial = a platform whose list has more than one tag; distinct by platform string.",
    "assumptions": [
        "legacy fat* macOS formats are stripped from both sides (not claimed)",
        "linux_<arch> on musllinux is neither required nor forbidden (statement silent; packaging and the code emit it)",
        "arm64 on macOS 10.x is not a real platform and is excluded",
        "T5 (known finding): the position of linux_<arch> in manylinux lists (packaging 26.x: first; dep-logic and a pinned test: last) is excluded and counted",
    ],
    "exhaustive": True,
}


def grid():
    out = []
    for arch in T.LINUX_ARCHS:
        for minor in range(5, 51):
            out.append(["manylinux", 2, minor, arch])
        for minor in range(1, 6):
            out.append(["musllinux", 1, minor, arch])
    for arch in ("x86_64", "arm64"):
        vers = [(10, m) for m in range(4, 17)] + [(M, m) for M in range(11, 31) for m in (0, 3)]
        for M, m in vers:
            if arch == "arm64" and M == 10:
                continue
            out.append(["macos", M, m, arch])
    for s in ("windows_x86", "windows_amd64", "windows_arm64", "windows", "linux", "macos", "alpine", "macos_arm64", "macos_x86_64", "windows_x86_64", "windows_i686", "windows_i386", "windows_aarch64"):
        out.append(["name", s])
    return out


def tasks(tier, seed):
    g = grid()
    return [(MOD, "run", (i, 8)) for i in range(8)]


def run(acc, shard, nshards):
    acc.exhaustive_layers.add("grid")
    mod = sys.modules[MOD]
    for i, c in enumerate(grid()):
        if i % nshards == shard:
            harness.process(mod, acc, "platform", {"p": c}, "grid", isolate=False)


ALIASES = {
    "windows_x86": ["win32"],
    "windows_amd64": ["win_amd64"],
    "windows_arm64": ["win_arm64"],
    "windows": ["win_amd64"],
    # the other spellings Arch.parse documents for the same three Windows architectures
    "windows_x86_64": ["win_amd64"],
    "windows_i686": ["win32"],
    "windows_i386": ["win32"],
    "windows_aarch64": ["win_arm64"],
    "linux": T.oracle_manylinux(17, "x86_64"),
    "macos": T.oracle_mac(14, 0, "arm64"),
    "macos_arm64": T.oracle_mac(14, 0, "arm64"),
    "macos_x86_64": T.oracle_mac(14, 0, "x86_64"),
}


def evaluate(kind, case, acc):
    c = case["p"]
    as_list = True
    optional = set()
    if c[0] == "name":
        text = c[1]
        if text == "alpine":
            exp = sorted(T.oracle_musllinux(2, "x86_64"))
            as_list = False
            optional = {"linux_x86_64"}
        else:
            exp = ALIASES[text]
            as_list = not text.startswith("windows")
    else:
        fam, major, minor, arch = c
        text = f"{fam}_{major}_{minor}_{arch}"
        if fam == "manylinux":
            exp = T.oracle_manylinux(minor, arch)
            pk = T.pk_manylinux(minor, arch)
            if pk != exp:
                raise harness.HarnessError(f"rule oracle and packaging disagree on {text}: {pk[:4]} vs {exp[:4]}")
        elif fam == "musllinux":
            exp = sorted(T.oracle_musllinux(minor, arch))
            as_list = False
            optional = {f"linux_{arch}"}
            # packaging also yields musllinux_1_0 (no such musl ABI tag exists in PEP 656; the statement starts at 1.1)
            pk = T.pk_musllinux(minor, arch) - optional - {f"musllinux_1_0_{arch}"}
            if pk != set(exp):
                raise harness.HarnessError(f"rule oracle and packaging disagree on {text}: {sorted(pk)} vs {exp}")
        else:
            exp = T.oracle_mac(major, minor, arch)
            pk = T.pk_mac(major, minor, arch)
            if pk != exp:
                raise harness.HarnessError(f"rule oracle and packaging disagree on {text}: {pk[:5]} vs {exp[:5]}")
    p = Platform.parse(text)
    raw = list(p.compatible_tags)
    got = T.nofat(raw)
    acc.oracle_evaluations += len(exp)
    if len(exp) > 1:
        acc.nontriv(text)
    fam_label = c[0] if c[0] != "name" else "alias"
    acc.label(fam_label)
    plain = [t for t in exp if t.startswith("linux_")]
    if as_list and plain and fam_label in ("manylinux", "alias"):
        # T5 (known finding): packaging 26.x ranks linux_<arch> first, dep-logic (and a pinned repository test) last.
        # Everything else about the list is compared exactly; the position of that one tag is the finding.
        pos_ok = got[:1] == plain
        got_wo, exp_wo = [t for t in got if t not in plain], [t for t in exp if t not in plain]
        if not pos_ok:
            if harness.KNOWN_ENABLED and got[-1:] == plain:
                acc.excluded_known["T5-linux-arch-position"] += 1
            else:
                acc.fail(kind, f"{fam_label}:position-of-linux_arch", case, expected={"first": plain}, got={"index": got.index(plain[0]) if plain[0] in got else None, "n": len(got)})
        if set(plain) - set(got):
            acc.fail(kind, f"{fam_label}:set", case, expected=plain, got="missing")
        got, exp = got_wo, exp_wo
    if as_list:
        if got != exp:
            i = next((k for k, (a, b) in enumerate(zip(got, exp)) if a != b), min(len(got), len(exp)))
            kindf = "set" if set(got) != set(exp) else "order"
            acc.fail(kind, f"{fam_label}:{kindf}", case, expected={"n": len(exp), "first_diff": exp[i : i + 3]}, got={"n": len(got), "first_diff": got[i : i + 3]})
    else:
        if set(got) - optional != set(exp):
            acc.fail(kind, f"{fam_label}:set", case, expected=exp, got=sorted(got))
    if len(set(raw)) != len(raw):
        acc.fail(kind, f"{fam_label}:duplicate-tags", case, expected="no duplicates", got=[t for t in raw if raw.count(t) > 1][:3])
    # score = position in the list, `any` last, foreign tags rejected
    spec = EnvSpec(RangeSpecifier(), p, None)
    prev = None
    for t in raw + ["any"]:
        r = spec.compatibility(["py3"], ["none"], [t])
        if r is None:
            acc.fail(kind, f"{fam_label}:own-tag-rejected", case, expected="compatible", got=t)
            break
        # the same tag through the file-name entry point
        rw = spec.wheel_compatibility(f"x-1-py3-none-{t}.whl")
        if rw == r:
            rw = spec.wheel_compatibility(f"x-1-20240229-py3-none-{t}.whl")  # with a build tag
        if rw != r:
            acc.fail(kind, f"{fam_label}:wheel_compatibility-differs-from-compatibility", case, expected=r, got={"tag": t, "wheel_compatibility": rw})
            break
        if prev is not None and not r[3] < prev:
            acc.fail(kind, f"{fam_label}:score-not-decreasing", case, expected=f"< {prev}", got={"tag": t, "score": r[3]})
            break
        prev = r[3]
    # a wheel with several platform tags scores like its best tag, in whatever order they are written
    if len(raw) >= 3:
        i, j = 0, len(raw) // 2
        want = spec.compatibility(["py3"], ["none"], [raw[i]])
        for tags in ([raw[j], raw[i]], [raw[i], raw[j]], [raw[-1], "any", raw[i]], ["any", raw[j]]):
            r = spec.compatibility(["py3"], ["none"], tags)
            exp_r = want if raw[i] in tags else spec.compatibility(["py3"], ["none"], [raw[j]])
            if r != exp_r:
                acc.fail(kind, f"{fam_label}:multi-tag-wheel-not-scored-by-its-best-tag", case, expected=exp_r, got={"tags": tags, "score": r})
                break
    for foreign in ("win_ia64", "manylinux_2_99_" + (c[3] if c[0] != "name" else "x86_64"), "macosx_99_0_universal2", "musllinux_1_99_x86_64", "linux_sparc"):
        if foreign not in raw and spec.compatibility(["py3"], ["none"], [foreign]) is not None:
            acc.fail(kind, f"{fam_label}:foreign-tag-accepted", case, expected=None, got=foreign)
    acc.sample({"platform": text, "n_tags": len(raw), "first": raw[:3], "last": raw[-2:]}, fam_label)
