"""Marker grammar, environment grids and the shadow AST (DESIGN §3.3-§3.5).

Atom   = {"var", "op", "val", "rev"(literal on the left), "style"}      (JSON-able)
Tree   = ["atom", Atom] | ["and", [Tree, ...]] | ["or", [Tree, ...]]
Only *well-defined* atoms are generated (see DESIGN §3.3 for what is left out and why).
The shadow truth of an atom never comes from dep-logic: packaging.Marker for everything but
`extra` against a set, which uses the three-line PEP 685 reference.
"""

from __future__ import annotations

import itertools
import re

from hypothesis import strategies as st
from packaging.markers import Marker as PkgMarker

STR_VARS = {
    "os_name": ["posix", "nt", "java", "pos", ""],
    "sys_platform": ["linux", "linux2", "win32", "darwin", "win", "cygwin"],
    "platform_machine": ["x86_64", "x86", "arm64", "aarch64", "AMD64", "amd64"],
    "platform_system": ["Linux", "Windows", "Darwin", "Lin", 'Li"nux'],
    "implementation_name": ["cpython", "pypy", "python"],
    "platform_python_implementation": ["CPython", "PyPy", "Jython"],
}
NUMERIC_LITS = {"platform_machine": ["386", "10.0", "64"], "os_name": ["2", "1.0"], "sys_platform": ["5", "3.0"]}
LEGACY_NAMES = {
    "os_name": "os.name",
    "sys_platform": "sys.platform",
    "platform_machine": "platform.machine",
    "platform_python_implementation": "platform.python_implementation",
}
MINORS = ["2.7", "3.0", "3.1", "3.6", "3.7", "3.8", "3.9", "3.10", "3.11", "3.12", "3.13", "4.0"]
MICROS = [0, 1, 2, 10]
PYV_LITS = MINORS + ["3", "2", "4"] + ["3.8.1", "3.8.0", "3.10.2"]  # X.Y.Z on python_version: valid PEP 508, seen in real metadata
PYV_LITS += ["3.9.0", "3.9.1", "v3.9.1", "0!3.8", "0!3.8.1", "3.9.1.0", "1!3.8"]  # other PEP 440 spellings of the same versions
PYV_LITS += ["3.8rc1", "3.9.1rc1", "3.8.1rc1", "3.9.1.dev0", "3.8.post1", "3.post1"]  # between two python_version values (comparison operators only)
PYFV_LITS = [f"{m}.{z}" for m in ["2.7", "3.0", "3.7", "3.8", "3.9", "3.10", "3.12"] for z in MICROS] + ["3.7", "3.8", "3.9", "3.10", "2.7"] + ["3.9a1", "3.10.0rc1", "3.8.0b2"]
REL_LITS = ["5.4", "5.4.0", "5.15.0", "6.0", "6.1", "10", "21.6.0", "6"]
REL_NONVERSION_LITS = ["4.9.253-tegra", "5.15.0-91-generic"]  # real-world kernel releases: valid literals for == / != only
PY_NONVERSION_LITS = ["3.8.0+", "3.9+abc", "unknown"]  # "3.9+abc": a local label is valid for == / != only  # PEP 508 allows any string; == / != then compare strings (packaging does the same)
NONVERSION_LITS = REL_NONVERSION_LITS + PY_NONVERSION_LITS
REL_VALUES = ["5.3", "5.4", "5.4.0", "5.4.1", "5.10.1", "5.15.0", "5.15.1", "6.0", "6.0.1", "6.1", "6.1.1", "9.9", "10", "10.0", "10.1", "21.6.0", "21.6.1", "22.0.0"]
EXTRA_NAMES = ["foo", "bar", "Foo_Bar", "foo-bar", "baz"]
EXTRA_ENV_NAMES = ["foo", "bar", "foo-bar", "FOO.BAR", "baz", "qux", "foo_-bar", "Foo._.Bar"]  # mixed separator runs normalise to one dash
VERSION_VARS = ("python_version", "python_full_version", "platform_release")
CMP_OPS = ["==", "!=", "<", "<=", ">", ">="]
REFLECT = {"<": ">", "<=": ">=", ">": "<", ">=": "<=", "==": "==", "!=": "!=", "in": "in", "not in": "not in", "~=": "~="}


def _choice(n):
    return st.sampled_from(range(n))


# --------------------------------------------------------------------------
# atoms
@st.composite
def atom(draw, classes):
    """One well-defined atom of one of the requested classes."""
    k = draw(st.sampled_from(classes))
    style = draw(_choice(8))
    rev = False
    if k in ("A1", "A1n"):
        var = draw(st.sampled_from(sorted(STR_VARS if k == "A1" else NUMERIC_LITS)))
        val = draw(st.sampled_from(STR_VARS[var] if k == "A1" else NUMERIC_LITS[var]))
        op = draw(st.sampled_from(["==", "!="]))
        rev = draw(_choice(5)) == 0
    elif k == "A2":
        var = draw(st.sampled_from(sorted(STR_VARS)))
        vals = draw(st.lists(st.sampled_from(STR_VARS[var]), min_size=1, max_size=3, unique=True))
        val = " ".join(vals)
        op = draw(st.sampled_from(["in", "not in"]))
    elif k == "A2r":
        var = draw(st.sampled_from(sorted(STR_VARS)))
        val = draw(st.sampled_from(STR_VARS[var]))
        op = draw(st.sampled_from(["in", "not in"]))
        rev = True
    elif k == "A3":
        var = draw(st.sampled_from(["python_version", "python_version", "python_full_version", "python_full_version", "platform_release"]))
        lits = {"python_version": PYV_LITS + PY_NONVERSION_LITS[:2], "python_full_version": PYFV_LITS + PY_NONVERSION_LITS, "platform_release": REL_LITS + REL_NONVERSION_LITS}[var]
        val = draw(st.sampled_from(lits))
        op = draw(st.sampled_from(CMP_OPS + ["~=", "==*", "!=*"]))
        if val in NONVERSION_LITS:
            # not a PEP 440 version: only (string) equality is well-defined
            op = draw(st.sampled_from(["==", "!="]))
        if op in ("==*", "!=*"):
            # release prefix only: no wildcard after a pre-release; up to X.Y.Z.* (the library itself prints
            # python_version != "3.9.0.*" for python_version < "3.9.0" or python_version >= "3.9.1.0")
            val = re.match(r"(v|0!)?\d+(\.\d+){0,2}", val).group()
            op, val = op[:2], val + ".*"
        elif op == "~=":
            if re.match(r"(v|0!)?\d+$", re.sub(r"(\.?(rc|a|b|post|dev)\d+)+$", "", val)):
                val = re.match(r"(v|0!)?\d+", val).group()  # ~= needs two release segments: "3.post1" -> "3" -> "3.0"
            if "." not in val:
                val += ".0"
        else:
            # a pre-release literal on the left makes the *environment value* the specifier operand, and PEP 440's
            # exclusion rules (<V never matches a pre-release of V) then break the mirror symmetry: not well-defined
            rev = draw(_choice(5)) == 0 and val.replace(".", "").isdigit()
    elif k in ("A4", "A4s"):
        var = "python_version"
        vals = draw(st.lists(st.sampled_from(MINORS), min_size=1, max_size=3, unique=True))
        sep = draw(st.sampled_from([", ", ","])) if k == "A4" else " "
        val = sep.join(vals)
        op = draw(st.sampled_from(["in", "not in"]))
    elif k == "A5":
        var = "extra"
        val = draw(st.sampled_from(EXTRA_NAMES))
        op = draw(st.sampled_from(["==", "!="]))
        rev = draw(_choice(5)) == 0
    elif k == "A6":
        var = draw(st.sampled_from(["extras", "dependency_groups"]))
        val = draw(st.sampled_from(EXTRA_NAMES))
        op = draw(st.sampled_from(["in", "not in"]))
        rev = True
    else:
        raise ValueError(k)
    return {"var": var, "op": op, "val": val, "rev": rev, "style": style}


def atom_text(a, plain=False) -> str:
    """Render. `style` picks quotes / blanks / legacy dotted name; plain=True gives the canonical spelling."""
    s = 0 if plain else a.get("style", 0)
    q = "'" if s & 1 else '"'
    if q in a["val"]:  # a literal may contain one kind of quote: use the other one
        q = "'" if q == '"' else '"'
    var = a["var"]
    if s == 6 and var in LEGACY_NAMES:
        var = LEGACY_NAMES[var]
    lit = f"{q}{a['val']}{q}"
    op = a["op"]
    tight = (s & 2) and op not in ("in", "not in")
    sp = "" if tight else (" " if not (s & 4) else "  ")
    if a["rev"]:
        return f"{lit}{sp}{REFLECT[op] if op in REFLECT else op}{sp}{var}"
    return f"{var}{sp}{op}{sp}{lit}"


def render(tree, top=True) -> str:
    tag = tree[0]
    if tag == "atom":
        t = atom_text(tree[1])
        return f"({t})" if tree[1].get("style", 0) == 7 and not top else t
    parts = []
    for ch in tree[1]:
        s = render(ch, False)
        if ch[0] != "atom" and not (ch[0] == "and" and tag == "or" and len(s) % 2):
            s = f"({s})"
        parts.append(s)
    return f" {tag} ".join(parts)


def atoms_of(tree):
    if tree[0] == "atom":
        return [tree[1]]
    return [a for ch in tree[1] for a in atoms_of(ch)]


def tree_strategy(classes, max_leaves=4):
    leaf = atom(classes).map(lambda a: ["atom", a])
    return st.recursive(
        leaf,
        lambda ch: st.tuples(st.sampled_from(["and", "or"]), st.lists(ch, min_size=2, max_size=3)).map(list),
        max_leaves=max_leaves,
    )


@st.composite
def related_tree(draw, classes, max_leaves=4):
    """Tree whose atoms are biased to share variables (so that merges happen)."""
    t = draw(tree_strategy(classes, max_leaves))
    ats = atoms_of(t)
    if len(ats) >= 2 and draw(_choice(3)) > 0:
        # re-target some atoms onto the first atom's variable family
        first = ats[0]
        for a in ats[1:]:
            if draw(st.booleans()):
                b = draw(atom(classes))
                if _family(b["var"]) == _family(first["var"]):
                    a.clear()
                    a.update(b)
    return t


def _family(var):
    return "py" if var in ("python_version", "python_full_version") else var


def tree_shrinks(tree):
    if tree[0] == "atom":
        a = tree[1]
        if a.get("style"):
            yield ["atom", {**a, "style": 0}]
        if a["rev"]:
            yield ["atom", {**a, "rev": False}]
        return
    for ch in tree[1]:
        yield ch
    if len(tree[1]) > 2:
        for i in range(len(tree[1])):
            yield [tree[0], tree[1][:i] + tree[1][i + 1 :]]
    for i, ch in enumerate(tree[1]):
        for s in tree_shrinks(ch):
            yield [tree[0], tree[1][:i] + [s] + tree[1][i + 1 :]]


# --------------------------------------------------------------------------
# reference truth of atoms
def normalize_name(s: str) -> str:
    return re.sub(r"[-_.]+", "-", s).lower()


_pk_cache: dict = {}
_truth_cache: dict = {}


def atom_truth(a, env) -> bool:
    """Reference truth of one atom in env (env must define the atom's variable)."""
    var = a["var"]
    if var == "extra" and not isinstance(env["extra"], str):
        have = {normalize_name(x) for x in env["extra"]}
        r = normalize_name(a["val"]) in have
        return r if a["op"] == "==" else not r
    if var in ("extras", "dependency_groups"):
        have = {normalize_name(x) for x in env[var]}
        r = normalize_name(a["val"]) in have
        return r if a["op"] == "in" else not r
    value = env[var]
    key = (var, a["op"], a["val"], a["rev"], value)
    r = _truth_cache.get(key)
    if r is None:
        text = atom_text(a, plain=True)
        m = _pk_cache.get(text)
        if m is None:
            m = _pk_cache[text] = PkgMarker(text)
        e = {var: value}
        if var == "extra":
            e = {"extra": value}
        r = _truth_cache[key] = bool(m.evaluate(e))
        if len(_truth_cache) > 200000:
            _truth_cache.clear()
    return r


def truth(tree, env) -> bool:
    tag = tree[0]
    if tag == "atom":
        return atom_truth(tree[1], env)
    if tag == "and":
        return all(truth(ch, env) for ch in tree[1])
    return any(truth(ch, env) for ch in tree[1])


# --------------------------------------------------------------------------
# environments
def _ver_tuple(s):
    return tuple(int(x) for x in s.split("."))


def py_values(atoms) -> list[str]:
    """Final interpreters X.Y.Z: grid + neighbours of every literal of the case."""
    vals = {f"{m}.{z}" for m in MINORS for z in (0, 1, 2, 10, 11)}
    for a in atoms:
        if a["var"] not in ("python_version", "python_full_version"):
            continue
        for lit in re.split(r"[ ,]+", a["val"].replace(".*", "")):
            m_ = re.match(r"\d+(\.\d+){0,2}", lit)  # release part of a (possibly pre-release) literal
            if not m_:
                continue
            lit = m_.group()
            t = _ver_tuple(lit) + (0, 0)
            x, y, z = t[0], t[1], t[2]
            for yy in (y - 1, y, y + 1):
                if yy < 0:
                    continue
                for zz in {0, 1, max(z - 1, 0), z, z + 1}:
                    vals.add(f"{x}.{yy}.{zz}")
            vals.add(f"{x + 1}.0.0")
            if x > 0:
                vals.add(f"{x - 1}.9.0")
    return sorted(vals, key=_ver_tuple)


def rel_values(atoms) -> list[str]:
    vals = set(REL_VALUES)
    for a in atoms:
        if a["var"] != "platform_release":
            continue
        lit = a["val"].replace(".*", "")
        if re.fullmatch(r"\d+(\.\d+){0,2}", lit):
            t = list(_ver_tuple(lit))
            vals.add(lit)
            vals.add(".".join(map(str, t[:-1] + [t[-1] + 1])))
            if t[-1] > 0:
                vals.add(".".join(map(str, t[:-1] + [t[-1] - 1])))
            vals.add(lit + ".1")
    return sorted(vals, key=_ver_tuple)


def str_values(var, atoms) -> list[str]:
    vals = dict.fromkeys(STR_VARS.get(var, []) + NUMERIC_LITS.get(var, [])[:1] + ["other"])
    for a in atoms:
        if a["var"] != var:
            continue
        vals[a["val"]] = None
        for item in a["val"].split():
            vals[item] = None
        if a["rev"] and a["op"] in ("in", "not in"):
            vals[a["val"] + "2"] = None
            vals["x" + a["val"]] = None
    return list(vals)


def extra_values(atoms, as_set: bool):
    if as_set:
        names = list(dict.fromkeys(EXTRA_ENV_NAMES + [a["val"] for a in atoms if a["var"] == "extra"]))[:8]
        out = [set()]
        out += [{n} for n in names]
        out += [set(c) for c in itertools.combinations(names[:5], 2)]
        return out
    return ["", "foo", "bar", "foo-bar", "Foo__Bar", "FOO.BAR", "baz", "qux"] + [a["val"] for a in atoms if a["var"] == "extra"][:2]


def environments(atoms, limit=256, extra_as_set=True, salt=0) -> list[dict]:
    """Every variable the case mentions gets a value in every row. Full product when it has
    <= limit rows; otherwise every value of every variable appears (one-at-a-time around base rows)
    plus a deterministic stride sample of the product."""
    vars_ = []
    for a in atoms:
        f = _family(a["var"])
        if f not in vars_:
            vars_.append(f)
    axes = []
    for f in vars_:
        if f == "py":
            axes.append([("py", v) for v in py_values(atoms)])
        elif f == "platform_release":
            axes.append([(f, v) for v in rel_values(atoms)])
        elif f == "extra":
            axes.append([(f, v) for v in extra_values(atoms, extra_as_set)])
        elif f in ("extras", "dependency_groups"):
            # packaging documents AbstractSet here: alternate set / frozenset
            vals = extra_values([{**a, "var": "extra"} for a in atoms if a["var"] == f], True)
            axes.append([(f, frozenset(v) if i % 2 else v) for i, v in enumerate(vals)])
        else:
            axes.append([(f, v) for v in str_values(f, atoms)])
    total = 1
    for ax in axes:
        total *= len(ax)
    if total <= limit:
        combos = list(itertools.product(*axes))
    else:
        seen = {}
        bases = [tuple(ax[(salt + 3 * i) % len(ax)] for i, ax in enumerate(axes)), tuple(ax[(salt + 1 + 5 * i) % len(ax)] for i, ax in enumerate(axes))]
        for base in bases:
            for i, ax in enumerate(axes):
                for v in ax:
                    row = list(base)
                    row[i] = v
                    seen[tuple(map(_hashable, row))] = tuple(row)
        stride = _coprime_stride(total, salt)
        idx = (salt * 7919) % total
        while len(seen) < limit:
            row = []
            rem = idx
            for ax in axes:
                row.append(ax[rem % len(ax)])
                rem //= len(ax)
            seen.setdefault(tuple(map(_hashable, row)), tuple(row))
            idx = (idx + stride) % total
        combos = list(seen.values())
    out = []
    for combo in combos:
        e = {}
        for k, v in combo:
            if k == "py":
                e["python_full_version"] = v
                e["python_version"] = ".".join(v.split(".")[:2])
            else:
                e[k] = v
        out.append(e)
    return out


def _hashable(kv):
    k, v = kv
    return (k, tuple(sorted(v)) if isinstance(v, (set, frozenset)) else v)


def _coprime_stride(total, salt):
    import math

    s = max(1, int(total * 0.6180339887) + salt) | 1
    while math.gcd(s, total) != 1:
        s += 2
    return s


def env_json(e):
    return {k: (sorted(v) if isinstance(v, (set, frozenset)) else v) for k, v in e.items()}


def env_from_json(e):
    return {k: (set(v) if isinstance(v, list) else v) for k, v in e.items()}


# --------------------------------------------------------------------------
# M4 (known finding): `python_version in/not in "<list>"` is evaluated by substring (PEP 508, as
# packaging does) but merged by list membership in the algebra.  The two readings differ exactly on
# environments whose python_version is a substring of the literal without being one of its items.
def m4_row(atoms, env) -> bool:
    pv = env.get("python_version")
    if pv is None:
        return False
    for a in atoms:
        if a["var"] == "python_version" and a["op"] in ("in", "not in") and not a["rev"]:
            items = [x for x in re.split(r"[ ,]+", a["val"]) if x]
            if pv in a["val"] and pv not in items:
                return True
    return False


# --------------------------------------------------------------------------
# shapes aimed at the simplifiers: shared factors, complementary atoms, wide normal forms
_NEG = {"==": "!=", "!=": "==", "<": ">=", ">=": "<", ">": "<=", "<=": ">", "in": "not in", "not in": "in"}


def negate_atom(a):
    """Exact complement of an atom where one exists in the grammar (None for ~=)."""
    if a["op"] not in _NEG:
        return None
    return {**a, "op": _NEG[a["op"]]}


@st.composite
def factored_tree(draw, classes):
    """(P and X) or (P and Y) / (P or X) and (P or Y) with X, Y on one variable (often exact complements),
    or a wide DNF / CNF over distinct variables - the inputs of union_simplify / intersect_simplify / cnf / dnf."""
    kind = draw(st.sampled_from(["shared-or", "shared-and"] * 5 + ["wide-dnf", "wide-cnf"]))
    if kind.startswith("wide"):
        inner, outer = ("and", "or") if kind == "wide-dnf" else ("or", "and")
        groups = []
        for _ in range(draw(st.sampled_from([2, 2, 2, 3]))):
            ats = [draw(atom(classes)) for _ in range(draw(st.sampled_from([2, 2, 2, 3])))]
            groups.append([inner, [["atom", a] for a in ats]])
        return [outer, groups]
    inner, outer = ("and", "or") if kind == "shared-or" else ("or", "and")
    p = draw(atom(classes))
    x = draw(atom(classes))
    how = draw(st.sampled_from(["complement", "complement", "same-var", "other"]))
    y = negate_atom(x) if how == "complement" else None
    if y is None:
        y = draw(atom(classes))
        if how == "same-var":
            for _ in range(4):
                if _family(y["var"]) == _family(x["var"]):
                    break
                y = draw(atom(classes))
    left = [inner, [["atom", p], ["atom", x]]]
    right = [inner, [["atom", dict(p)], ["atom", y]]]
    if draw(st.booleans()):
        q = draw(atom(classes))
        right = [inner, [["atom", dict(p)], ["atom", y], ["atom", q]]]
    if draw(st.booleans()):
        left, right = right, left
    return [outer, [left, right]]
