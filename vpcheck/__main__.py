"""python -m vpcheck <Cxx> [--tier quick|thorough] [--replay FILE]"""

from __future__ import annotations

import argparse
import importlib
import json
import os
import sys
import time
import traceback

from . import harness
from .harness import Acc, HarnessError, fails


def main(argv=None) -> int:
    ap = argparse.ArgumentParser(prog="vpcheck")
    ap.add_argument("prop")
    ap.add_argument("--tier", default=os.environ.get("VERIF_TIER", "quick"), choices=["quick", "thorough"])
    ap.add_argument("--replay")
    ap.add_argument("--no-known", action="store_true", help="development: ignore known-finding classes")
    args = ap.parse_args(argv)
    prop = args.prop.upper()
    seed = int(os.environ.get("VERIF_SEED", "1") or "1")
    t0 = time.time()
    try:
        harness.pin_environment()
        mod = importlib.import_module(f"vpcheck.checks.{prop.lower()}")
        if args.no_known:
            harness.KNOWN_ENABLED = False
        if args.replay:
            with open(args.replay) as f:
                rec = json.load(f)
            fl = fails(mod, rec["kind"], rec["case"])
            if fl:
                for f_ in fl:
                    print(f"replay fails: bucket={f_['bucket']} expected={f_['expected']!r} got={f_['got']!r}")
                print(f"VIOLATION property={prop} replay={args.replay}")
                return 1
            print("replay passes")
            return 0

        acc = Acc()
        violations: list[dict] = []
        rdir = os.path.join(harness.VERIF, "replays")
        if os.path.isdir(rdir) and not os.environ.get("VERIF_NO_EVIDENCE"):  # replay files of an earlier run of this check are stale
            for fn in os.listdir(rdir):
                if fn.startswith(prop + "_"):
                    os.remove(os.path.join(rdir, fn))
        # 1. regression corpus (shrunk inputs of repaired defects): a failure is a violation
        for entry in harness.load_corpus(prop):
            acc.case("corpus")
            for f_ in fails(mod, entry["kind"], entry["case"]):
                f_["bucket"] = "corpus:" + entry["_file"] + ":" + f_["bucket"]
                violations.append(f_)
        # 2. known findings: reproduce, announce, never VIOLATION
        known_lines = []
        if not args.no_known:
            for e in harness.load_known(prop):
                if e.get("status") != "known":
                    continue
                rep = e["reproducer"]
                acc.case("known-reproducer")
                harness.KNOWN_ENABLED = False
                try:
                    still = fails(mod, rep["kind"], rep["case"])
                finally:
                    harness.KNOWN_ENABLED = True
                if still:
                    known_lines.append(f"KNOWN-FINDING: property={prop} {e['id']}: {e['what']}")
        for line in known_lines:
            print(line)
        # 3. the search
        tasks = mod.tasks(args.tier, seed)
        harness.run_tasks(tasks, acc)
        search_s = time.time() - t0
        # 4. shrunk representatives: per coarse bucket (text before "|") the most frequent and the
        #    smallest fine buckets; everything else is only counted in the evidence
        by_coarse: dict[str, list[str]] = {}
        for bucket in acc.failures:
            by_coarse.setdefault(bucket.split("|")[0], []).append(bucket)
        chosen: list[str] = []
        for coarse, fine in sorted(by_coarse.items()):
            size = lambda b: min(len(harness.jkey(f_["case"])) for f_ in acc.failures[b])  # noqa: E731
            picks = sorted(fine, key=lambda b: -acc.fail_counts[b])[:2] + sorted(fine, key=size)[:2]
            for b in picks:
                if b not in chosen:
                    chosen.append(b)
        chosen = chosen[:24]
        budget = (40.0 if args.tier == "quick" else 180.0) / max(1, len(chosen))
        seen_cases = set()
        for bucket in chosen:
            lst = acc.failures[bucket]
            rep = min(lst, key=lambda f_: len(harness.jkey(f_["case"])))
            if hasattr(mod, "candidates") and rep["kind"] != "task":
                kind = rep["kind"]
                small = harness.minimize(
                    rep["case"],
                    lambda c: mod.candidates(kind, c),
                    lambda c: bool(fails(mod, kind, c, bucket))
                    and not (harness.KNOWN_ENABLED and hasattr(mod, "is_known") and mod.is_known(kind, c)),
                    budget_s=budget,
                )
                again = fails(mod, kind, small, bucket)
                if again:
                    rep = again[0]
            key = harness.jkey(rep["case"])
            if key in seen_cases:
                continue
            seen_cases.add(key)
            violations.append(rep)
        wall = time.time() - t0
        meta = dict(mod.META)
        meta["shards"] = len(tasks)
        harness.write_evidence(prop, args.tier, seed, acc, meta, wall, len(violations))
        print(
            f"{prop} tier={args.tier} seed={seed} cases={acc.evaluations} "
            f"nontrivial={acc.nontrivial_exhaustive + len(acc.nontrivial)} "
            f"excluded_known={sum(acc.excluded_known.values())} timeouts={acc.timeouts} "
            f"buckets={len(acc.failures)} search={search_s:.1f}s wall={wall:.1f}s"
        )
        if violations:
            for i, v in enumerate(violations):
                path = harness.write_replay(prop, v)
                if i >= 8:
                    continue
                print(
                    f"  bucket={v['bucket']} count={acc.fail_counts.get(v['bucket'], 1)} "
                    f"case={harness.jkey(v['case'])[:400]} expected={str(v['expected'])[:200]} got={str(v['got'])[:200]}"
                )
                print(f"VIOLATION property={prop} replay={path}")
            if len(violations) > 8:
                print(f"  ... {len(violations) - 8} more buckets, replay files written under /verif/replays")
            return 1
        return 0
    except HarnessError as e:
        print(f"HARNESS-ERROR {prop}: {e}", file=sys.stderr)
        return 2
    except Exception:  # noqa: BLE001
        print(f"HARNESS-ERROR {prop}: {traceback.format_exc()}", file=sys.stderr)
        return 2


if __name__ == "__main__":
    sys.exit(main())
