"""Property-based / exhaustive small-scope checks for dep-logic (see /verif/DESIGN.md)."""
